//! C07 — versioned reads are stable, duplicate-free and respect deletion: real `GraphStore`
//! vs the Lean model `SgModel.Mvcc`, and the step specification (stable / as-of / now / scan)
//! evaluated on the implementation's dumps of every (entity, version) read after every step.
#[path = "c07/mvcc.rs"]
mod mvcc;
use mvcc::{parse, render, run_real, Op};
use samyama::query::QueryEngine;
use serde_json::json;
use vharness::{driver, Args, Known, Report, Rng};

/// generator-side picture of the store: which node ids / relationship ids are live
#[derive(Clone, Default)]
struct Gen {
    live_nodes: Vec<u64>,
    free_nodes: Vec<u64>,
    next_node: u64,
    rel: Option<(u64, u64, u64)>, // (id, src, tgt)
    free_edges: Vec<u64>,
    next_edge: u64,
    txns: u64,
    cur: u64,
}

impl Gen {
    fn new() -> Gen {
        Gen { next_node: 1, next_edge: 1, cur: 1, ..Default::default() }
    }
    fn apply(&mut self, op: &Op) {
        match op {
            Op::CreateNode(_) => {
                let id = self.free_nodes.pop().unwrap_or_else(|| {
                    self.next_node += 1;
                    self.next_node - 1
                });
                self.live_nodes.push(id);
            }
            Op::DeleteNode(n) => {
                if self.live_nodes.contains(n) {
                    self.live_nodes.retain(|x| x != n);
                    self.free_nodes.push(*n);
                    if let Some((id, a, b)) = self.rel {
                        if a == *n || b == *n {
                            self.rel = None;
                            self.free_edges.push(id);
                        }
                    }
                }
            }
            Op::CreateEdge(a, b, _) => {
                if self.live_nodes.contains(a) && self.live_nodes.contains(b) {
                    let id = self.free_edges.pop().unwrap_or_else(|| {
                        self.next_edge += 1;
                        self.next_edge - 1
                    });
                    self.rel = Some((id, *a, *b));
                }
            }
            Op::DeleteEdge(e) => {
                if let Some((id, _, _)) = self.rel {
                    if id == *e {
                        self.rel = None;
                        self.free_edges.push(id);
                    }
                }
            }
            Op::Begin(_) => self.txns += 1,
            Op::Commit(_) | Op::Bump => self.cur += 1,
            _ => {}
        }
    }
    /// the enabled letters (one relationship at a time, at most `max_nodes` nodes)
    fn letters(&self, step: usize, max_nodes: usize, with_gc: bool) -> Vec<Vec<Op>> {
        let mut l: Vec<Vec<Op>> = vec![vec![Op::Bump]];
        // "commit a transaction": begin + commit of the transaction just begun
        l.push(vec![Op::Begin(true), Op::Commit(self.txns + 1)]);
        if self.live_nodes.len() < max_nodes {
            l.push(vec![Op::CreateNode(1)]);
        }
        let val = step as i64 + 10;
        for n in &self.live_nodes {
            l.push(vec![Op::SetProp(*n, 0, val)]);
            l.push(vec![Op::DeleteNode(*n)]);
        }
        if let Some(n) = self.live_nodes.first() {
            l.push(vec![Op::RemoveProp(*n, 0)]);
            l.push(vec![Op::AddLabel(*n, 2)]);
            l.push(vec![Op::RemoveLabel(*n, 1)]);
        }
        match self.rel {
            Some((id, _, _)) => {
                l.push(vec![Op::SetEdge(id, 0, val)]);
                l.push(vec![Op::DeleteEdge(id)]);
            }
            None => {
                if self.live_nodes.len() >= 2 {
                    let (a, b) = (self.live_nodes[0], self.live_nodes[1]);
                    l.push(vec![Op::CreateEdge(a, b, vec![(0, 1)])]);
                }
            }
        }
        if with_gc && self.cur >= 2 {
            l.push(vec![Op::Gc(self.cur - 1)]);
            l.push(vec![Op::Gc(self.cur)]);
        }
        l
    }
}

fn exhaustive(len: usize, max_nodes: usize, with_gc: bool, out: &mut Vec<Vec<Op>>) {
    fn go(len: usize, max_nodes: usize, with_gc: bool, g: &Gen, cur: &mut Vec<Op>, steps: usize, out: &mut Vec<Vec<Op>>) {
        if steps == len {
            out.push(cur.clone());
            return;
        }
        for letter in g.letters(steps, max_nodes, with_gc) {
            let mut g2 = g.clone();
            for op in &letter {
                g2.apply(op);
                cur.push(op.clone());
            }
            go(len, max_nodes, with_gc, &g2, cur, steps + 1, out);
            for _ in &letter {
                cur.pop();
            }
        }
    }
    go(len, max_nodes, with_gc, &Gen::new(), &mut vec![], 0, out);
}

fn random_case(rng: &mut Rng) -> Vec<Op> {
    let len = 12 + rng.usize(40);
    let mut g = Gen::new();
    let mut ops = vec![];
    for step in 0..len {
        // mostly enabled letters, sometimes an arbitrary (possibly failing) op on ids 1..3
        if rng.chance(1, 8) {
            let n = 1 + rng.below(3);
            let op = match rng.below(9) {
                0 => Op::SetProp(n, rng.below(2), step as i64),
                1 => Op::RemoveProp(n, rng.below(2)),
                2 => Op::AddLabel(n, 1 + rng.below(3)),
                3 => Op::RemoveLabel(n, 1 + rng.below(3)),
                4 => Op::DeleteNode(n),
                5 => Op::DeleteEdge(n),
                6 => Op::SetEdge(n, rng.below(2), step as i64),
                7 => Op::Abort(1 + rng.below(3)),
                _ => Op::Begin(rng.chance(1, 2)),
            };
            // keep the generator's picture exact: only ops it can track
            if matches!(op, Op::CreateEdge(..)) {
                continue;
            }
            g.apply(&op);
            ops.push(op);
            continue;
        }
        let ls = g.letters(step, 3, true);
        let letter = rng.pick(&ls).clone();
        for op in letter {
            g.apply(&op);
            ops.push(op);
        }
    }
    ops
}

const CLAUSES: [&str; 6] = ["stable", "asof", "now", "scan", "result", "txn"];

fn main() {
    let args = Args::parse();
    let known = Known::load(&args.known, "C07");
    let mut rep = Report::new(
        "C07",
        "histories over create/set/remove property/add,remove label/delete node/create,set,delete relationship/version bump/\
         commit a transaction/gc over 2-3 nodes and 1 relationship; after every step every (entity, version <= current) read, \
         node_count, all_nodes and the transaction reads are dumped and compared with the dump before the step; \
         non-trivial = two versions of one entity exist and a later write follows; distinct = distinct rendered history",
        &args.replays,
        args.seed,
    );
    let exe = args.driver_exe("drv_mvcc");
    let engine = QueryEngine::new();

    let mut seqs: Vec<Vec<Op>> = vec![];
    let mut n_corpus = 0;
    let mut files: Vec<std::path::PathBuf> = vec![];
    if let Some(r) = &args.replay {
        files.push(r.clone());
    } else if let Ok(rd) = std::fs::read_dir(args.corpus.join("C07")) {
        files = rd.filter_map(|e| e.ok().map(|e| e.path())).collect();
        files.sort();
    }
    for f in &files {
        for line in std::fs::read_to_string(f).unwrap_or_default().lines() {
            if let Some(ops_txt) = line.trim().strip_prefix("ops ") {
                if let Some(ops) = parse(ops_txt) {
                    seqs.push(ops);
                    n_corpus += 1;
                }
            }
        }
    }
    rep.count_n("corpus_sequences", n_corpus);

    if args.replay.is_none() {
        let before = seqs.len();
        let l = if args.thorough() { 7 } else { 6 };
        for k in 1..=l {
            exhaustive(k, 2, false, &mut seqs);
        }
        exhaustive(5, 2, true, &mut seqs);
        rep.exhaustive = true;
        rep.exhaustive_note = format!(
            "{} histories: every history of up to {} enabled steps over 2 nodes + 1 relationship (create node, set/remove property, \
             add/remove label, delete node, create/set/delete relationship, bump current_version, begin+commit a transaction), and of {} \
             steps with gc(cur-1)/gc(cur) added; plus PRNG histories of 12-50 steps over 3 nodes incl. failing ops (not exhaustive)",
            seqs.len() - before,
            l,
            5
        );
        let mut rng = Rng::new(args.seed);
        let n_rand = if args.thorough() { 60_000 } else { 6_000 };
        for _ in 0..n_rand {
            seqs.push(random_case(&mut rng));
        }
    }

    let mut first_break: Option<String> = None;
    for chunk in seqs.chunks(100_000) {
        let rendered: Vec<String> = chunk.iter().map(|s| render(s)).collect();
        let mut eng_bad: Vec<Option<String>> = vec![None; chunk.len()];
        let real: Vec<String> = chunk
            .iter()
            .enumerate()
            .map(|(k, s)| {
                let mut em = None;
                let r = std::panic::catch_unwind(std::panic::AssertUnwindSafe(|| {
                    let mut em2 = None;
                    let o = run_real(s, if k % 16 == 0 { Some(&engine) } else { None }, &mut em2);
                    (o, em2)
                }));
                match r {
                    Ok((o, e)) => {
                        em = e;
                        eng_bad[k] = em;
                        o
                    }
                    Err(_) => "PANIC".to_string(),
                }
            })
            .collect();
        let mut lines = Vec::with_capacity(chunk.len() * 2);
        for (r, o) in rendered.iter().zip(real.iter()) {
            lines.push(format!("run {}", r));
            lines.push(format!("spec {} {}", r, o));
        }
        let replies = driver::par_batch(&exe, &lines, 14);
        for (k, ops) in chunk.iter().enumerate() {
            let m = &replies[2 * k];
            let s = &replies[2 * k + 1];
            let nt = mvcc::nontrivial(ops, false);
            rep.case(&rendered[k], nt);
            if nt && rep.samples.len() < 3 {
                rep.sample(json!({"ops": rendered[k], "impl_obs_last": real[k].rsplit(';').next()}));
            }
            for op in ops {
                rep.count(&format!("op:{}", op.kind()));
            }
            let body = format!("ops {}\nimpl  {}\nmodel {}\nspec  {}", rendered[k], real[k], m, s);
            if let Some(e) = &eng_bad[k] {
                rep.count("spec_violation:scan:engine");
                rep.spec_violation(&known, "scan:engine", &format!("query engine scan/count differs from the live nodes ({}) on `{}`", e, rendered[k]), &body);
            }
            if s != "ok" {
                let mut sigs: Vec<String> = vec![];
                match s.strip_prefix("viol ") {
                    Some(list) => {
                        for v in list.split(',') {
                            let f: Vec<&str> = v.split('.').collect();
                            let step = f.first().and_then(|x| x.parse::<usize>().ok());
                            let clause = f.get(1).and_then(|x| x.parse::<usize>().ok()).unwrap_or(4);
                            let ent = if f.get(2) == Some(&"e") { "rel" } else { "node" };
                            let kind = step.and_then(|i| ops.get(i)).map(|o| o.kind()).unwrap_or("?");
                            let sig = if clause == 3 {
                                format!("scan:{}", kind)
                            } else {
                                format!("{}:{}:{}", CLAUSES.get(clause).unwrap_or(&"?"), kind, ent)
                            };
                            if !sigs.contains(&sig) {
                                sigs.push(sig);
                            }
                        }
                    }
                    None => sigs.push("driver-rejected".into()),
                }
                for sig in sigs {
                    rep.count(&format!("spec_violation:{}", sig));
                    rep.spec_violation(&known, &sig, &format!("versioned-read specification violated ({}) on `{}`: {}", sig, rendered[k], s), &body);
                }
            }
            if *m != format!("ok {}", real[k]) {
                rep.count("model_mismatch");
                if first_break.is_none() {
                    first_break = Some(body);
                }
            }
        }
    }
    if let Some(body) = first_break {
        if rep.spec_violations.is_empty() {
            rep.correspondence_break(
                "SgModel.Mvcc.step = GraphStore versioning functions (dump of every versioned read after every step)",
                "model and implementation observations differ and no specification violation outside the known findings was found",
                &body,
            );
        }
    }
    rep.sample(json!({"ops": seqs.last().map(|s| render(s))}));
    rep.write(&args.out);
}
