//! C32 — replicated requests have their persistence effect on every replica.
//!
//! The same request sequence is applied to 2-3 real `GraphStateMachine`s, each over its own
//! `PersistenceManager` in its own directory; every replica is then closed, reopened with a
//! fresh manager and recovered.  The observations (responses, recovered graph of the probed
//! tenant; timestamps dropped) are compared with each other and with the Lean model
//! (`replicaObs smFixed`), and the executable specification `specReplicas` is evaluated on them.
#[path = "persist/common.rs"]
mod common;
use common::*;
use samyama::persistence::PersistenceManager;
use samyama::raft::state_machine::{GraphStateMachine, Request, Response};
use serde_json::json;
use std::path::{Path, PathBuf};
use std::sync::atomic::{AtomicUsize, Ordering};
use std::sync::{Arc, Mutex};
use vharness::{driver, Args, Known, Report, Rng};

/// tenant tags of the model: 0 = the probed tenant (registration from the case), 1 = a
/// registered but disabled tenant, 2 = a tenant nobody registered, 3 = the pre-registered
/// `default` tenant (default quotas).  Tenants 0 and 3 hold data in the same store and are both
/// probed; 1 and 2 can never hold data (their creations fail).
const TENANTS: [&str; 4] = ["a1", "d0", "u0", "default"];
const PROBED: [usize; 2] = [0, 3];
const DEFAULT_CFG: &str = "1.1.1000000.10000000";

#[derive(Clone, Debug)]
struct Req {
    tenant: usize,
    /// for create-node requests the label list as sent (may be unsorted, may repeat)
    op: Op,
}

fn render_reqs(rs: &[Req]) -> String {
    if rs.is_empty() { "-".into() } else { rs.iter().map(|r| format!("{}@{}", r.tenant, r.op.render())).collect::<Vec<_>>().join(";") }
}
fn parse_reqs(s: &str) -> Option<Vec<Req>> {
    if s == "-" { return Some(vec![]); }
    s.split(';')
        .map(|x| {
            let (t, o) = x.split_once('@')?;
            let tenant: usize = t.parse().ok()?;
            if tenant >= TENANTS.len() { return None; }
            Some(Req { tenant, op: Op::parse(o)? })
        })
        .collect()
}

fn to_request(r: &Req) -> Request {
    let tenant = TENANTS[r.tenant].to_string();
    match &r.op {
        Op::CreateNode { id, labels, props } => Request::CreateNode {
            tenant,
            node_id: *id,
            labels: labels.iter().map(|l| LABELS[*l as usize].to_string()).collect(),
            properties: props_of(props),
        },
        Op::CreateEdge { id, src, tgt, ty, props } => Request::CreateEdge {
            tenant,
            edge_id: *id,
            source: *src,
            target: *tgt,
            edge_type: TYPES[*ty as usize].to_string(),
            properties: props_of(props),
        },
        Op::DeleteNode(id) => Request::DeleteNode { tenant, node_id: *id },
        Op::DeleteEdge(id) => Request::DeleteEdge { tenant, edge_id: *id },
        Op::UpdateNode(id, p) => Request::UpdateNodeProperties { tenant, node_id: *id, properties: props_of(p), version: p.len() as u64 },
        Op::UpdateEdge(id, p) => Request::UpdateEdgeProperties { tenant, edge_id: *id, properties: props_of(p), version: (p.len() as u64) * 7 },
    }
}

fn show_resp(r: &Response) -> String {
    match r {
        Response::Ok => "ok".into(),
        Response::NodeCreated { node_id } => format!("n{}", node_id),
        Response::EdgeCreated { edge_id } => format!("e{}", edge_id),
        Response::Error { .. } => "err".into(),
        Response::QueryResult { .. } => "query".into(),
    }
}

fn setup(pm: &PersistenceManager, cfg: &Cfg) {
    cfg.setup(pm, TENANTS[0]);
    Cfg { registered: true, enabled: false, max_nodes: None, max_edges: None }.setup(pm, TENANTS[1]);
    // TENANTS[3] = "default" is registered by the manager itself
}

/// one replica: apply, close, reopen, recover the probed tenants; one observation per probed tenant
fn run_replica(rt: &tokio::runtime::Runtime, dir: &Path, cfg: &Cfg, reqs: &[Req]) -> Vec<String> {
    let _ = std::fs::remove_dir_all(dir);
    std::fs::create_dir_all(dir).expect("replica dir");
    let mut resps = vec![];
    {
        let pm = Arc::new(PersistenceManager::new(dir).expect("open"));
        setup(&pm, cfg);
        let sm = GraphStateMachine::new(pm.clone());
        for r in reqs {
            let resp = rt.block_on(sm.apply(to_request(r)));
            resps.push(show_resp(&resp));
        }
    }
    let pm = PersistenceManager::new(dir).expect("reopen");
    setup(&pm, cfg);
    let out = PROBED
        .iter()
        .map(|t| {
            let d = match dump(&pm, TENANTS[*t]) {
                Ok(d) => d,
                Err(e) => format!("recover-failed[{}]", e),
            };
            format!("{}|{}", if resps.is_empty() { "-".to_string() } else { resps.join(",") }, d)
        })
        .collect();
    drop(pm);
    let _ = std::fs::remove_dir_all(dir);
    out
}

fn gen_reqs(rng: &mut Rng) -> Vec<Req> {
    let len = 3 + rng.usize(12);
    let max_id = 2 + rng.below(3);
    (0..len)
        .map(|_| {
            let tenant = match rng.below(20) { 0..=10 => 0, 11..=14 => 3, 15..=17 => 1, _ => 2 };
            let mut op = gen_op(rng, max_id);
            if let Op::CreateNode { labels, .. } = &mut op {
                // the wire format is a Vec<String>: repeat / reorder labels now and then
                if !labels.is_empty() && rng.chance(1, 3) {
                    let x = labels[rng.usize(labels.len())];
                    labels.insert(0, x);
                }
                if labels.len() > 1 && rng.chance(1, 2) {
                    labels.reverse();
                }
            }
            Req { tenant, op }
        })
        .collect()
}

/// structural class of a violating case: how the recovered graph differs from the model's
fn classify(real_dump: &str, model_reply: &str) -> &'static str {
    let md = model_reply.strip_prefix("ok ").and_then(|x| x.split('|').nth(1)).unwrap_or("");
    let ents = |d: &str| -> Vec<(String, Vec<String>)> {
        d.split('/').next().unwrap_or("").split(',').filter(|x| *x != "-" && !x.is_empty())
            .map(|e| { let f: Vec<String> = e.split(':').map(|s| s.to_string()).collect(); (f[0].clone(), f) }).collect()
    };
    let (rn, mn) = (ents(real_dump), ents(md));
    let mut label0 = false;
    let mut props = false;
    let mut other = rn.len() != mn.len();
    for (id, f) in &rn {
        match mn.iter().find(|(i, _)| i == id) {
            Some((_, g)) => {
                if f.get(1) != g.get(1) { if f.get(1).map(|s| s.as_str()) == Some("0") && g.get(1).map(|s| s.as_str()) == Some("-") { label0 = true } else { other = true } }
                if f.get(2) != g.get(2) { props = true }
            }
            None => other = true,
        }
    }
    let redge = real_dump.split('/').nth(1).unwrap_or("");
    let medge = md.split('/').nth(1).unwrap_or("");
    if redge != medge { props = true }
    if other { "replica-state" } else if label0 { "empty-label" } else if props { "update-lost" } else { "replica-state" }
}

fn main() {
    let args = Args::parse();
    let known = Known::load(&args.known, "C32");
    let mut rep = Report::new(
        "C32",
        "case = (registration of the probed tenant, request sequence over create/delete/update of nodes and edges addressed to the \
         probed, a disabled and an unregistered tenant, number of replicas 2-3); non-trivial = the sequence contains a request \
         answered with an error and a property update; distinct = distinct (cfg, requests)",
        &args.replays,
        args.seed,
    );
    let exe = args.driver_exe("drv_persist");
    let work = tempfile::Builder::new().prefix("c32").tempdir_in(&args.work).expect("work dir");

    let mut cases: Vec<(Cfg, Vec<Req>, usize)> = vec![];
    let mut files: Vec<PathBuf> = vec![];
    if let Some(r) = &args.replay {
        files.push(r.clone());
    } else if let Ok(rd) = std::fs::read_dir(args.corpus.join("C32")) {
        files = rd.filter_map(|e| e.ok().map(|e| e.path())).collect();
        files.sort();
    }
    let mut n_corpus = 0;
    for f in &files {
        for line in std::fs::read_to_string(f).unwrap_or_default().lines() {
            // `case <cfg> <reqs> <replicas>`
            let t: Vec<&str> = line.split_whitespace().collect();
            if t.len() == 4 && t[0] == "case" {
                if let (Some(cfg), Some(reqs), Ok(n)) = (Cfg::parse(t[1]), parse_reqs(t[2]), t[3].parse::<usize>()) {
                    cases.push((cfg, reqs, n.clamp(1, 3)));
                    n_corpus += 1;
                }
            }
        }
    }
    rep.count_n("corpus_cases", n_corpus);
    if args.replay.is_none() {
        let mut rng = Rng::new(args.seed);
        let n = if args.thorough() { 1500 } else { 110 };
        for i in 0..n {
            let cfg = match i % 3 {
                0 => Cfg::open(),
                _ => Cfg { registered: true, enabled: true, max_nodes: Some(1 + rng.usize(3)), max_edges: Some(1 + rng.usize(2)) },
            };
            cases.push((cfg, gen_reqs(&mut rng), if i % 5 == 0 { 3 } else { 2 }));
        }
    }

    // run the replicas (8 workers, one case each at a time)
    let next = AtomicUsize::new(0);
    let out: Mutex<Vec<(usize, Vec<Vec<String>>)>> = Mutex::new(vec![]);
    std::thread::scope(|sc| {
        for w in 0..8usize {
            let (next, out, cases, work) = (&next, &out, &cases, work.path());
            sc.spawn(move || {
                let rt = tokio::runtime::Builder::new_current_thread().build().unwrap();
                loop {
                    let i = next.fetch_add(1, Ordering::SeqCst);
                    if i >= cases.len() { break; }
                    let (cfg, reqs, n) = &cases[i];
                    let obs: Vec<Vec<String>> = (0..*n).map(|r| run_replica(&rt, &work.join(format!("w{}r{}", w, r)), cfg, reqs)).collect();
                    out.lock().unwrap().push((i, obs));
                }
            });
        }
    });
    let mut obs = out.into_inner().unwrap();
    obs.sort_by_key(|(i, _)| *i);

    let cfgs = |c: &Cfg| format!("0={},1=1.0.-.-,3={}", c.render(), DEFAULT_CFG);
    let np = PROBED.len();
    let mut lines = vec![];
    for (i, o) in &obs {
        let (cfg, reqs, _) = &cases[*i];
        for (pi, t) in PROBED.iter().enumerate() {
            let per_replica: Vec<String> = o.iter().map(|r| r[pi].clone()).collect();
            lines.push(format!("replicas {} {} {}", cfgs(cfg), render_reqs(reqs), t));
            lines.push(format!("specreplicas {} {} {}", render_reqs(reqs), t, per_replica.join("#")));
        }
    }
    let replies = driver::par_batch(&exe, &lines, 8);
    let mut first_break: Option<String> = None;
    for (k, (i, o)) in obs.iter().enumerate() {
        let (cfg, reqs, n) = &cases[*i];
        let canon = format!("{} {}", cfg.render(), render_reqs(reqs));
        let failing = o[0][0].split('|').next().unwrap_or("").split(',').any(|x| x == "err");
        let update = reqs.iter().any(|r| r.op.is_update());
        rep.case(&canon, failing && update);
        rep.count(&format!("replicas:{}", n));
        for r in reqs { rep.count(&format!("req:{}@{}", r.op.kind(), ["probed", "disabled", "unregistered", "default"][r.tenant])); }
        for x in o[0][0].split('|').next().unwrap_or("").split(',') { rep.count(&format!("resp:{}", x.trim_start_matches(|c: char| c == 'n' || c == 'e').parse::<u64>().map(|_| "created").unwrap_or(x))); }
        if failing && update && rep.samples.len() < 3 {
            rep.sample(json!({"cfg": cfg.render(), "reqs": render_reqs(reqs), "replica_obs": o[0]}));
        }
        for (pi, t) in PROBED.iter().enumerate() {
            let (m, s) = (&replies[2 * (k * np + pi)], &replies[2 * (k * np + pi) + 1]);
            let per_replica: Vec<String> = o.iter().map(|r| r[pi].clone()).collect();
            let body = format!("case {} {} {}\nprobed-tenant {}\nimpl  {}\nmodel {}\nspec  {}", cfg.render(), render_reqs(reqs), n, t, per_replica.join(" # "), m, s);
            if s != "ok" {
                let sig = if per_replica.iter().any(|x| x != &per_replica[0]) { "replicas-differ" } else if s == "viol" { classify(per_replica[0].split('|').nth(1).unwrap_or(""), m) } else { "driver-rejected" };
                rep.count(&format!("spec_violation:{}", sig));
                rep.spec_violation(&known, sig, &format!("replica observations of tenant {} violate the specification ({}) on `{}`", TENANTS[*t], s, render_reqs(reqs)), &body);
            } else if per_replica.iter().any(|x| format!("ok {}", x) != *m) {
                rep.count("model_mismatch");
                if first_break.is_none() { first_break = Some(body); }
            }
        }
    }
    // model self-test: the model of the pinned tree differs on the corpus witnesses
    {
        let mut l = vec![];
        for (cfg, reqs, _) in cases.iter().take(n_corpus as usize) {
            l.push(format!("replicas {} {} 0", cfgs(cfg), render_reqs(reqs)));
            l.push(format!("replicaslegacy {} {} 0", cfgs(cfg), render_reqs(reqs)));
        }
        let r = driver::batch(&exe, &l);
        let detected = r.chunks(2).filter(|c| c[0] != c[1]).count();
        rep.extra.insert("model_self_test".into(), json!({"mutants": r.len() / 2, "detected": detected}));
    }
    if let Some(body) = first_break {
        if rep.spec_violations.is_empty() {
            rep.correspondence_break(
                "SgModel.Persist.replicaObs smFixed = GraphStateMachine::apply* ; reopen ; PersistenceManager::recover (responses, recovered graph)",
                "model and implementation observations differ but the specification holds on all explored cases",
                &body,
            );
        }
    }
    rep.write(&args.out);
}
