//! scratch probe (agent optrdf): RDF round-trip candidates on the real code
use samyama::rdf::{BlankNode, Literal, NamedNode, RdfFormat, RdfObject, RdfParser, RdfPredicate, RdfSerializer, RdfSubject, Triple};

fn nn(s: &str) -> NamedNode {
    NamedNode::new(s).unwrap()
}
fn rt(name: &str, ts: Vec<Triple>) {
    for (fname, f) in [("nt", RdfFormat::NTriples), ("ttl", RdfFormat::Turtle), ("xml", RdfFormat::RdfXml)] {
        match RdfSerializer::serialize(&ts, f) {
            Err(e) => println!("{name} {fname}: serialize ERR {e}"),
            Ok(s) => match RdfParser::parse(&s, f) {
                Err(e) => println!("{name} {fname}: parse ERR {e}  :: {:?}", s),
                Ok(back) => {
                    let a: std::collections::HashSet<_> = ts.iter().cloned().collect();
                    let b: std::collections::HashSet<_> = back.iter().cloned().collect();
                    if a == b {
                        println!("{name} {fname}: ok");
                    } else {
                        println!("{name} {fname}: DIFF out={:?} back={:?}", s, back);
                    }
                }
            },
        }
    }
}
fn lit(v: &str) -> Vec<Triple> {
    vec![Triple::new(
        RdfSubject::NamedNode(nn("http://e/s")),
        RdfPredicate::new("http://e/p").unwrap(),
        RdfObject::Literal(Literal::new_simple_literal(v)),
    )]
}
fn bn(id: &str) -> Vec<Triple> {
    match BlankNode::from_str(id) {
        Err(e) => {
            println!("bnode {id:?} rejected: {e}");
            vec![]
        }
        Ok(b) => vec![
            Triple::new(RdfSubject::BlankNode(b.clone()), RdfPredicate::new("http://e/p").unwrap(), RdfObject::BlankNode(b.clone())),
            Triple::new(RdfSubject::NamedNode(nn("http://e/s")), RdfPredicate::new("http://e/p").unwrap(), RdfObject::BlankNode(b)),
        ],
    }
}
fn pred(p: &str) -> Vec<Triple> {
    match RdfPredicate::new(p) {
        Err(e) => {
            println!("pred {p:?} rejected: {e}");
            vec![]
        }
        Ok(pp) => vec![Triple::new(RdfSubject::NamedNode(nn("http://e/s")), pp, RdfObject::NamedNode(nn(p)))],
    }
}

fn main() {
    for v in ["", " ", "\n", "\t", " a ", "\r", "a\rb", "\u{0}", "\u{1}", "\u{b}", "\u{7f}", "\u{85}", "\u{2028}", "\u{fffe}", "\u{ffff}", "\u{10ffff}", "\u{1F600}", "<&>\"'", "]]>", "&amp;", "&#10;", "\\u0041", "\\", "\"", "a\"\"\"b", "'''", "\u{feff}x"] {
        rt(&format!("lit {:?}", v), lit(v));
    }
    for id in ["a", "0", "0a", "123", "a1f", "a:b", ":a", "a..b", "a.b", "a.", "a-", "-a", "_", "a\u{b7}", "\u{b7}", "é", "a.é", "a\u{300}", "a.\u{300}", "x_1"] {
        let t = bn(id);
        if !t.is_empty() {
            rt(&format!("bnode {:?}", id), t);
        }
    }
    for p in ["http://e/1", "http://e/", "http://e/a%20b", "http://e/a#", "urn:x", "urn:1", "http://e/a.b", "http://e/-a", "http://e/é", "http://e/a?x=1&y='2'", "http://[::1]/p", "a:", "http://e/a\u{b7}", "http://e/\u{b7}a", "HTTP://E/P", "http://e/p>", "http://e/p\\u0041", "http://e/ p", "http://e/p\u{10FFFD}", "http://e/a:b", "x-y.z+1:q"] {
        let t = pred(p);
        if !t.is_empty() {
            rt(&format!("pred {:?}", p), t);
        }
    }
    // language / datatype
    for (v, l) in [("x", "en"), ("x", "EN-us"), ("", "en"), (" ", "en"), ("x", "x-private"), ("x", "de-1996")] {
        match Literal::new_language_tagged_literal(v, l) {
            Err(e) => println!("lang {l} rejected {e}"),
            Ok(li) => rt(
                &format!("lang {:?}@{}", v, l),
                vec![Triple::new(RdfSubject::NamedNode(nn("http://e/s")), RdfPredicate::new("http://e/p").unwrap(), RdfObject::Literal(li))],
            ),
        }
    }
    for (v, d) in [("x", "http://www.w3.org/2001/XMLSchema#string"), ("x", "http://www.w3.org/1999/02/22-rdf-syntax-ns#langString"), ("<a/>", "http://www.w3.org/1999/02/22-rdf-syntax-ns#XMLLiteral"), (" ", "http://e/dt"), ("1", "http://www.w3.org/2001/XMLSchema#integer")] {
        let li = Literal::new_typed_literal(v, nn(d));
        rt(
            &format!("typed {:?}^^{}", v, d),
            vec![Triple::new(RdfSubject::NamedNode(nn("http://e/s")), RdfPredicate::new("http://e/p").unwrap(), RdfObject::Literal(li))],
        );
    }
}
