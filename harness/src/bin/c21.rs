//! C21 — the RESP decoder is safe on arbitrary bytes (work in progress: child + probe)
#[path = "resp_common/mod.rs"]
mod resp_common;
use resp_common::*;
use std::alloc::{GlobalAlloc, Layout, System};
use std::io::{BufRead, Write};
use std::sync::atomic::{AtomicUsize, Ordering};

struct Counting;
static CUR: AtomicUsize = AtomicUsize::new(0);
static PEAK: AtomicUsize = AtomicUsize::new(0);
fn bump(n: usize) {
    let c = CUR.fetch_add(n, Ordering::Relaxed) + n;
    PEAK.fetch_max(c, Ordering::Relaxed);
}
unsafe impl GlobalAlloc for Counting {
    unsafe fn alloc(&self, l: Layout) -> *mut u8 {
        let p = System.alloc(l);
        if !p.is_null() { bump(l.size()); }
        p
    }
    unsafe fn dealloc(&self, p: *mut u8, l: Layout) {
        System.dealloc(p, l);
        CUR.fetch_sub(l.size(), Ordering::Relaxed);
    }
    unsafe fn realloc(&self, p: *mut u8, l: Layout, new: usize) -> *mut u8 {
        let q = System.realloc(p, l, new);
        if !q.is_null() {
            if new >= l.size() { bump(new - l.size()); } else { CUR.fetch_sub(l.size() - new, Ordering::Relaxed); }
        }
        q
    }
}
#[global_allocator]
static A: Counting = Counting;

/// child: one hex input per line -> `<class> <peak-bytes> <rest-hex> <value|->`;
/// the decode runs on a thread with the 2 MiB stack of a tokio worker
fn child_decode() {
    silence_panics();
    let stdin = std::io::stdin();
    let mut out = std::io::stdout();
    for line in stdin.lock().lines() {
        let line = line.unwrap();
        let input = unhex(line.trim()).expect("hex");
        let h = std::thread::Builder::new().stack_size(2 * 1024 * 1024).spawn(move || {
            let base = CUR.load(Ordering::Relaxed);
            PEAK.store(base, Ordering::Relaxed);
            let (c, v, rest) = real_decode_once(&input);
            let peak = PEAK.load(Ordering::Relaxed).saturating_sub(base);
            (c, v, rest, peak)
        }).unwrap();
        let (c, v, rest, peak) = h.join().expect("decode thread");
        writeln!(out, "{} {} {} {}", c, peak, hexd(&rest), if v.is_empty() { "-".to_string() } else { v }).unwrap();
        out.flush().unwrap();
    }
}

fn main() {
    let argv: Vec<String> = std::env::args().collect();
    if argv.get(1).map(|s| s.as_str()) == Some("--child") {
        match argv.get(2).map(|s| s.as_str()) {
            Some("decode") => child_decode(),
            _ => std::process::exit(2),
        }
        return;
    }
    if argv.get(1).map(|s| s.as_str()) == Some("--probe") {
        silence_panics();
        let mut inputs: Vec<(String, Vec<u8>)> = vec![
            ("bulk -2".into(), b"$-2\r\n".to_vec()),
            ("bulk -3".into(), b"$-3\r\n".to_vec()),
            ("bulk partial".into(), b"$5\r\nhel".to_vec()),
            ("array partial".into(), b"*2\r\n:1\r\n".to_vec()),
            ("array 1e10".into(), b"*9999999999\r\n".to_vec()),
            ("array usize max".into(), b"*18446744073709551615\r\n".to_vec()),
            ("inline a a a".into(), b"a a a a a a a a a a a a a a a a\r\n".to_vec()),
            ("inline one".into(), b"a\r\n".to_vec()),
            ("nulls".into(), b"*4\r\n_\r\n_\r\n_\r\n_\r\n".to_vec()),
        ];
        for depth in [100usize, 129, 1000, 20000, 200000] {
            let mut v = Vec::new();
            for _ in 0..depth { v.extend_from_slice(b"*1\r\n"); }
            inputs.push((format!("nest {}", depth), v));
        }
        for (name, inp) in inputs {
            let mut kid = Kid::spawn("decode");
            let r = kid.ask(&hexd(&inp));
            let r = match r { Ok(s) => s.chars().take(100).collect::<String>(), Err(e) => format!("CHILD DIED: {}", e) };
            println!("{:20} len={:7} -> {}", name, inp.len(), r);
        }
        let (evs, buf) = real_feed(&[b"$5\r\nhel".to_vec(), b"lo\r\n".to_vec()]);
        println!("feed [$5 hel | lo] -> {} buf={}", events_text(&evs), hexd(&buf));
        let (evs, buf) = real_feed(&[b"*2\r\n$3\r\nfoo\r\n".to_vec(), b"$3\r\nbar\r\n".to_vec()]);
        println!("feed [*2 foo | bar] -> {} buf={}", events_text(&evs), hexd(&buf));
        for v in [samyama::protocol::resp::RespValue::Error("ERR unknown command 'X\r\n+OK'".into()),
                  samyama::protocol::resp::RespValue::SimpleString("a\nb\rc".into())] {
            let mut b = Vec::new();
            v.encode(&mut b).unwrap();
            let (evs, buf) = real_feed(&[b.clone()]);
            println!("encode {:?} -> {:?}; decodes as {} buf={}", v, String::from_utf8_lossy(&b), events_text(&evs), hexd(&buf));
        }
        return;
    }
    eprintln!("c21: not finished");
    std::process::exit(2);
}
