//! C21 — the RESP decoder is safe on arbitrary bytes.
//! The real `RespValue::decode` runs in a **child process** (same binary, `--child decode`)
//! on a thread with the 2 MiB stack of a tokio worker, under a counting global allocator:
//! a panic is caught and reported, an allocator abort or a stack overflow kills the child
//! and is seen by the parent as the death of the child on that input.  Outcome class, value,
//! remaining buffer are compared with the Lean model (`SgModel.Resp.decode`), the measured
//! peak allocation with the model's meter, and the specification `specSafe` is evaluated on
//! the implementation's own observations.
#[path = "resp_common/mod.rs"]
mod resp_common;
use resp_common::*;
use bytes::BytesMut;
use samyama::protocol::resp::{RespError, RespValue};
use serde_json::json;
use std::alloc::{GlobalAlloc, Layout, System};
use std::io::{BufRead, Write};
use std::sync::atomic::{AtomicUsize, Ordering};
use vharness::{driver, Args, Known, Report, Rng};

struct Counting;
static CUR: AtomicUsize = AtomicUsize::new(0);
static PEAK: AtomicUsize = AtomicUsize::new(0);
fn bump(n: usize) {
    let c = CUR.fetch_add(n, Ordering::Relaxed) + n;
    PEAK.fetch_max(c, Ordering::Relaxed);
}
unsafe impl GlobalAlloc for Counting {
    unsafe fn alloc(&self, l: Layout) -> *mut u8 {
        let p = System.alloc(l);
        if !p.is_null() { bump(l.size()); }
        p
    }
    unsafe fn dealloc(&self, p: *mut u8, l: Layout) {
        System.dealloc(p, l);
        CUR.fetch_sub(l.size(), Ordering::Relaxed);
    }
    unsafe fn realloc(&self, p: *mut u8, l: Layout, new: usize) -> *mut u8 {
        let q = System.realloc(p, l, new);
        if !q.is_null() {
            if new >= l.size() { bump(new - l.size()); } else { CUR.fetch_sub(l.size() - new, Ordering::Relaxed); }
        }
        q
    }
}
#[global_allocator]
static A: Counting = Counting;

/// child: one hex input per line -> `<class> <peak-bytes> <rest-hex> <value|->`.
/// The whole loop runs on a thread with a 2 MiB stack (tokio's default worker stack).
fn child_decode() {
    silence_panics();
    let h = std::thread::Builder::new().stack_size(2 * 1024 * 1024).spawn(|| {
        let stdin = std::io::stdin();
        let mut out = std::io::stdout();
        for line in stdin.lock().lines() {
            let line = line.unwrap();
            let input = unhex(line.trim()).expect("hex");
            let mut buffer = BytesMut::from(&input[..]);
            let base = CUR.load(Ordering::Relaxed);
            PEAK.store(base, Ordering::Relaxed);
            let r = std::panic::catch_unwind(std::panic::AssertUnwindSafe(|| RespValue::decode(&mut buffer)));
            let peak = PEAK.load(Ordering::Relaxed).saturating_sub(base);
            let (c, v) = match &r {
                Ok(Ok(Some(v))) => ('V', vtext(v)),
                Ok(Ok(None)) | Ok(Err(RespError::Incomplete)) => ('M', "-".to_string()),
                Ok(Err(_)) => ('X', "-".to_string()),
                Err(_) => ('P', "-".to_string()),
            };
            writeln!(out, "{} {} {} {}", c, peak, hexd(&buffer), v).unwrap();
            out.flush().unwrap();
            // a deeply nested value is dropped recursively too: do it inside the guarded region
            let _ = std::panic::catch_unwind(std::panic::AssertUnwindSafe(move || drop(r)));
        }
    }).unwrap();
    h.join().expect("decode thread");
}

#[derive(Clone, Debug)]
struct Obs { class: char, peak: u64, rest: String, val: String }

/// run all inputs through child processes; an input the child dies on gets class 'A'
fn observe(inputs: &[Vec<u8>], rep: &mut Report) -> Vec<Obs> {
    let n_kids = 8usize.min(inputs.len().max(1));
    let chunk = (inputs.len() + n_kids - 1) / n_kids.max(1);
    let mut out: Vec<Vec<Obs>> = vec![];
    let mut deaths = 0u64;
    std::thread::scope(|sc| {
        let hs: Vec<_> = inputs.chunks(chunk.max(1)).map(|part| sc.spawn(move || {
            let mut res = Vec::with_capacity(part.len());
            let mut died = 0u64;
            let mut kid = Kid::spawn("decode");
            for inp in part {
                match kid.ask(&hexd(inp)) {
                    Ok(line) => {
                        let f: Vec<&str> = line.split(' ').collect();
                        res.push(Obs { class: f[0].chars().next().unwrap_or('?'), peak: f[1].parse().unwrap_or(u64::MAX), rest: f[2].to_string(), val: f[3].to_string() });
                    }
                    Err(status) => {
                        died += 1;
                        res.push(Obs { class: 'A', peak: u64::MAX, rest: status, val: "-".into() });
                        kid = Kid::spawn("decode");
                    }
                }
            }
            (res, died)
        })).collect();
        for h in hs { let (r, d) = h.join().expect("observer thread"); out.push(r); deaths += d; }
    });
    rep.count_n("child_process_deaths", deaths);
    out.into_iter().flatten().collect()
}

/// Appendix B: a length field outside [-1, remaining]
fn bad_length_field(b: &[u8]) -> Option<&'static str> {
    let mut i = 0;
    while i < b.len() {
        if b[i] == b'$' || b[i] == b'*' {
            if let Some(e) = b[i..].windows(2).position(|w| w == b"\r\n") {
                let txt = std::str::from_utf8(&b[i + 1..i + e]).unwrap_or("x");
                if let Ok(n) = txt.parse::<i128>() {
                    let remaining = (b.len() - (i + e + 2)) as i128;
                    if n < -1 { return Some(if b[i] == b'$' { "negative-bulk-length" } else { "negative-array-length" }); }
                    if n > remaining { return Some(if b[i] == b'$' { "bulk-length-beyond-input" } else { "array-length-beyond-input" }); }
                }
                i += e + 2;
                continue;
            }
        }
        i += 1;
    }
    None
}

fn nest_depth(b: &[u8]) -> usize {
    // leading run of `*<digits>\r\n` headers
    let mut i = 0; let mut d = 0;
    while i < b.len() && b[i] == b'*' {
        match b[i..].windows(2).position(|w| w == b"\r\n") { Some(e) => { i += e + 2; d += 1; } None => break }
    }
    d
}

fn main() {
    let argv: Vec<String> = std::env::args().collect();
    if argv.get(1).map(|s| s.as_str()) == Some("--child") {
        match argv.get(2).map(|s| s.as_str()) { Some("decode") => child_decode(), _ => std::process::exit(2) }
        return;
    }
    let args = Args::parse();
    silence_panics();
    let known = Known::load(&args.known, "C21");
    let mut rep = Report::new(
        "C21",
        "byte strings: all strings up to length 4 (quick) / 5 (thorough) over {+ - : $ * _ 0 1 2 9 CR LF a \"}, valid frames with a length \
         field replaced by -2, -1, 0, 2^31, 2^63-1, 2^63, 10^30, 9999999999, usize::MAX, truncations, nesting 100 … 200000 deep, big flat arrays, \
         inline lines with many tokens, random bytes; non-trivial = the input holds a length field outside [-1, remaining] or nests deeper than 8; \
         distinct = distinct input",
        &args.replays,
        args.seed,
    );
    let exe = args.driver_exe("drv_resp");
    let mut rng = Rng::new(args.seed);
    let mut inputs: Vec<Vec<u8>> = vec![];

    let mut n_corpus = 0;
    for (k, rest) in corpus_lines(&args.corpus.join("C21"), &args.replay) {
        match k.as_str() {
            "bytes" | "raw" => if let Some(b) = unhex(rest.split_whitespace().next().unwrap_or("")) { inputs.push(b); n_corpus += 1; },
            // nest <depth> <hex of the repeated header> : kept short in the corpus file
            "nest" => {
                let f: Vec<&str> = rest.split_whitespace().collect();
                if let (Some(d), Some(h)) = (f.first().and_then(|x| x.parse::<usize>().ok()), f.get(1).and_then(|x| unhex(x))) {
                    inputs.push(h.iter().cycle().take(h.len() * d).cloned().collect()); n_corpus += 1;
                }
            }
            _ => {}
        }
    }
    rep.count_n("corpus_cases", n_corpus);

    if args.replay.is_none() {
        // exhaustive short strings
        let alpha: &[u8] = b"+-:$*_0129\r\na\"";
        let maxlen = if args.thorough() { 5 } else { 4 };
        let mut n_ex = 0u64;
        for len in 0..=maxlen {
            let total = alpha.len().pow(len as u32);
            for mut x in 0..total {
                let mut s = Vec::with_capacity(len);
                for _ in 0..len { s.push(alpha[x % alpha.len()]); x /= alpha.len(); }
                inputs.push(s); n_ex += 1;
            }
        }
        rep.exhaustive = true;
        rep.exhaustive_note = format!("all {} byte strings of length <= {} over the 14-letter alphabet {{+ - : $ * _ 0 1 2 9 CR LF a \"}}; the remaining cases (mutated frames, deep nesting, random bytes) are not exhaustive", n_ex, maxlen);

        // length-field mutations of valid frames
        let lens = ["-2", "-1", "0", "-3", "-9223372036854775808", "2147483648", "9223372036854775807", "9223372036854775808", "1000000000000000000000000000000", "9999999999", "18446744073709551615", "18446744073709551616", "+3", "03", " 3", "3 ", "", "-", "+", "1e3", "576460752303423488"];
        let tails: [&[u8]; 6] = [b"", b"abc\r\n", b"abc", b"$3\r\nfoo\r\n:1\r\n", b"\r\n", b"_\r\n_\r\n_\r\n"];
        for l in lens.iter() {
            for t in tails.iter() {
                for ty in [b'$', b'*'] {
                    let mut v = vec![ty]; v.extend_from_slice(l.as_bytes()); v.extend_from_slice(b"\r\n"); v.extend_from_slice(t);
                    inputs.push(v.clone());
                    let mut w = b"*2\r\n:7\r\n".to_vec(); w.extend_from_slice(&v); inputs.push(w);
                    let mut w = b"*1\r\n*1\r\n".to_vec(); w.extend_from_slice(&v); inputs.push(w);
                }
            }
        }
        // RESP3 type bytes the decoder does not know (# , ! = % ~ > ( |): they fall into the inline-command
        // branch, alone, inside arrays, and torn
        for f in [&b"#t\r\n"[..], b",1.5\r\n", b"!3\r\nerr\r\n", b"=5\r\ntxt:a\r\n", b"%1\r\n+k\r\n:1\r\n", b"~1\r\n:1\r\n", b">2\r\n+a\r\n+b\r\n", b"(12345678901234567890\r\n", b"|1\r\n+a\r\n+b\r\n", b"!-1\r\n", b"=9999999999\r\n"] {
            inputs.push(f.to_vec());
            let mut w = b"*2\r\n".to_vec(); w.extend_from_slice(f); w.extend_from_slice(f); inputs.push(w);
            inputs.push(f[..f.len() - 1].to_vec());
        }
        // UTF-8 multi-byte characters meet byte arithmetic: inline lines over units
        // { " \ space a n é(2 bytes) €(3) 😀(4) } exhaustively (every string of up to 5 units: quoted and
        // unquoted tokens, every escape `\x` with x ASCII / 2- / 3- / 4-byte, multi-byte characters next to quotes
        // and at the line end), plus lone lead / continuation bytes up to 4 units; each as a complete line,
        // and the longer ones also torn inside their last character (no CRLF yet)
        {
            let units: Vec<&[u8]> = vec![b"\"", b"\\", b" ", b"a", b"n", "\u{e9}".as_bytes(), "\u{20ac}".as_bytes(), "\u{1f600}".as_bytes(), b"\xc3", b"\xa9"];
            let mut n_u = 0u64;
            for (nunits, maxlen) in [(8usize, 5usize), (10, if args.thorough() { 5 } else { 4 })] {
                for len in 1..=maxlen {
                    let total = nunits.pow(len as u32);
                    for mut x in 0..total {
                        let mut line: Vec<u8> = vec![];
                        let mut uses_extra = false;
                        for _ in 0..len { let u = x % nunits; if u >= 8 { uses_extra = true; } line.extend_from_slice(units[u]); x /= nunits; }
                        if nunits == 10 && !uses_extra { continue; }   // already produced by the 8-unit pass
                        if len == maxlen && line.len() > len { let mut t = line.clone(); t.pop(); inputs.push(t); n_u += 1; }
                        line.extend_from_slice(b"\r\n");
                        inputs.push(line); n_u += 1;
                    }
                }
            }
            rep.count_n("utf8_inline_inputs", n_u);
            // the same characters as content of simple strings, errors, bulk strings (length in bytes vs chars), inside arrays
            for ch in ["\u{e9}", "\u{20ac}", "\u{1f600}", "a\u{e9}", "\u{e9}\"", "\\\u{e9}"] {
                let b = ch.as_bytes();
                for f in [format!("+{}\r\n", ch), format!("-{}\r\n", ch), format!("${}\r\n{}\r\n", b.len(), ch), format!("${}\r\n{}\r\n", ch.chars().count(), ch),
                          format!("*2\r\n+{}\r\n\"\\{}\"\r\n", ch, ch), format!(":{}\r\n", ch), format!("SET k \"caf\\{}\"\r\n", ch), format!("SET k caf\\{} x\r\n", ch)] {
                    inputs.push(f.clone().into_bytes());
                    let mut t = f.into_bytes(); t.truncate(t.len() - 3); inputs.push(t.clone()); t.extend_from_slice(b"\r\n"); inputs.push(t);
                }
            }
        }
        // nesting
        let depths: Vec<usize> = if args.thorough() { vec![9, 100, 127, 128, 129, 130, 1000, 5000, 20000, 100000, 200000] } else { vec![9, 100, 127, 128, 129, 130, 1000, 20000] };
        for d in depths {
            for hdr in [&b"*1\r\n"[..], &b"*2\r\n"[..]] {
                let mut v: Vec<u8> = hdr.iter().cycle().take(hdr.len() * d).cloned().collect();
                inputs.push(v.clone());
                v.extend_from_slice(b":1\r\n"); inputs.push(v);
            }
        }
        // big flat arrays and token-heavy inline lines (allocation ratio)
        for n in [1usize, 4, 5, 100, 3000] {
            let mut v = format!("*{}\r\n", n).into_bytes();
            for _ in 0..n { v.extend_from_slice(b"_\r\n"); }
            inputs.push(v.clone());
            v.truncate(v.len() - 1); inputs.push(v);
            let mut v = format!("*{}\r\n", n).into_bytes();
            for _ in 0..n { v.extend_from_slice(b"a\r\n"); }
            inputs.push(v);
            let mut v = format!("*{}\r\n", n).into_bytes();
            for _ in 0..n { v.extend_from_slice(b"*0\r\n"); }
            inputs.push(v);
            let mut v: Vec<u8> = vec![];
            for _ in 0..n { v.extend_from_slice(b"a "); }
            inputs.push(v.clone()); v.extend_from_slice(b"\r\n"); inputs.push(v);
            let mut v: Vec<u8> = b"\"".to_vec();
            for _ in 0..n { v.extend_from_slice(b"\\n"); }
            v.extend_from_slice(b"\r\n"); inputs.push(v);
        }
        // 128 levels each announcing a huge array, then a long line: nothing may be reserved per level
        {
            let mut v = vec![];
            for _ in 0..128 { v.extend_from_slice(b"*349000\r\n"); }
            v.extend(std::iter::repeat(b'a').take(if args.thorough() { 16000 } else { 4000 }));
            inputs.push(v);
        }
        // random bytes and random mutations of frames
        let n_rand = if args.thorough() { 200_000 } else { 12_000 };
        for _ in 0..n_rand {
            let n = rng.usize(40);
            let v: Vec<u8> = match rng.usize(3) {
                0 => (0..n).map(|_| rng.below(256) as u8).collect(),
                1 => (0..n).map(|_| *rng.pick(b"+-:$*_0123456789\r\n\r\n a\"\\\xff\xc3\xa9")).collect(),
                _ => {
                    let mut s = if rng.chance(1, 2) { b"*3\r\n$3\r\nfoo\r\n:12\r\n*1\r\n+ok\r\n".to_vec() } else {
                        // a frame whose length fields are drawn around the truth
                        let l1 = *rng.pick(&["-2", "-1", "0", "2", "3", "4", "30", "99999"]);
                        let l2 = *rng.pick(&["-2", "-1", "0", "1", "2", "3", "7", "4294967296"]);
                        format!("*{}\r\n${}\r\nfoo\r\n*1\r\n$-1\r\n", l2, l1).into_bytes()
                    };
                    for _ in 0..1 + rng.usize(3) {
                        let i = rng.usize(s.len());
                        match rng.usize(3) { 0 => s[i] = *rng.pick(b"-9$*\r\n\xff\""), 1 => { s.remove(i); } _ => s.insert(i, *rng.pick(b"-9$*\r\n1")) }
                        if s.is_empty() { s.push(b'$'); }
                    }
                    s
                }
            };
            inputs.push(v);
        }
    }

    // observe the implementation (child processes), ask the model and the specification
    let obs = observe(&inputs, &mut rep);
    let mut lines = Vec::with_capacity(inputs.len() * 2);
    for (inp, o) in inputs.iter().zip(obs.iter()) {
        lines.push(format!("dec {}", hexd(inp)));
        let cls = if o.class == 'A' { 'P' } else { o.class };
        lines.push(format!("spec21 {} {} {}", cls, if o.peak == u64::MAX { "18446744073709551615".to_string() } else { o.peak.to_string() }, inp.len()));
    }
    let replies = driver::par_batch(&exe, &lines, 12);
    let mut first_break: Option<(String, String)> = None;
    let mut mismatches = 0u64;
    let mut max_ratio_x100 = 0u64;
    let mut max_ratio_input = String::new();
    let mut max_over_model: i64 = i64::MIN;
    for (k, inp) in inputs.iter().enumerate() {
        let o = &obs[k];
        let m = &replies[2 * k];
        let sp = &replies[2 * k + 1];
        let mf: Vec<&str> = m.split(' ').collect(); // ok <class> <val> <rest> <meter> <depth>
        let m_depth: u64 = mf.get(5).and_then(|x| x.parse().ok()).unwrap_or(0);
        let m_meter: u64 = mf.get(4).and_then(|x| x.parse().ok()).unwrap_or(0);
        let bad = bad_length_field(inp);
        let nt = bad.is_some() || nest_depth(inp) > 8 || m_depth > 8;
        let short = if inp.len() > 60 { format!("{}..({} bytes)", hex0(&inp[..24]), inp.len()) } else { hexd(inp) };
        rep.case(&hexd(inp), nt);
        rep.count(&format!("outcome:{}", match o.class { 'V' => "value", 'M' => "need-more", 'X' => "protocol-error", 'P' => "panic", 'A' => "process-died", _ => "?" }));
        if let Some(b) = bad { rep.count(&format!("length-field:{}", b)); }
        if nt && rep.samples.len() < 5 && inp.len() < 40 {
            rep.sample(json!({"input": String::from_utf8_lossy(inp), "impl_class": o.class.to_string(), "impl_peak_bytes": o.peak, "model": m}));
        }
        if o.peak != u64::MAX && !inp.is_empty() {
            let r = o.peak * 100 / inp.len() as u64;
            if r > max_ratio_x100 { max_ratio_x100 = r; max_ratio_input = short.clone(); }
            max_over_model = max_over_model.max(o.peak as i64 - m_meter as i64);
        }
        let replay_line = if inp.len() > 4000 && nest_depth(inp) > 100 && inp.len() % 4 == 0 && inp.chunks(4).all(|c| c == &inp[..4]) {
            format!("nest {} {}", inp.len() / 4, hex0(&inp[..4]))
        } else { format!("bytes {}", hexd(inp)) };
        let body = format!("{}\n# input  {}\n# impl   class={} peak={} rest={} value={}\n# model  {}\n# spec   {}", replay_line, short, o.class,
            if o.peak == u64::MAX { "n/a".to_string() } else { o.peak.to_string() }, if o.rest.len() > 200 { format!("{}..", &o.rest[..200]) } else { o.rest.clone() }, if o.val.len() > 200 { "…" } else { &o.val },
            if m.len() > 300 { &m[..300] } else { m }, sp);
        if sp != "ok" {
            let sig = if o.class == 'P' || o.class == 'A' {
                let shape = if nest_depth(inp) > 128 { "deep-nesting" } else if let Some(b) = bad { b }
                    else if inp.iter().any(|c| *c >= 0x80) && !inp.first().map_or(false, |c| b"+-:$*_".contains(c)) { "inline-non-ascii" }
                    else if inp.iter().any(|c| *c >= 0x80) { "non-ascii" } else { "other-input" };
                format!("{}:{}", if o.class == 'P' { "panic" } else { "process-died" }, shape)
            } else { "alloc-bound".to_string() };
            rep.count(&format!("spec_violation:{}", sig));
            rep.spec_violation(&known, &sig, &format!("decoder outcome class {} (P = panic, A = process died), peak allocation {} bytes for {} input bytes",
                o.class, if o.peak == u64::MAX { "n/a".to_string() } else { o.peak.to_string() }, inp.len()), &body);
            continue;
        }
        // R = M: outcome class, value, remaining buffer; and the model's meter covers the measured peak
        let same = mf.len() >= 6 && mf[1] == o.class.to_string() && mf[2] == o.val && mf[3] == o.rest;
        let meter_ok = o.peak <= m_meter + 256;
        if !same || !meter_ok {
            rep.count(if !same { "model_mismatch" } else { "model_meter_below_measured_peak" });
            mismatches += 1;
            if first_break.is_none() {
                first_break = Some((if !same { "SgModel.Resp.decode = RespValue::decode (outcome, value, remaining buffer)".into() } else { "SgModel.Resp.decode meter >= measured peak allocation - 256".into() }, body));
            }
        }
    }
    rep.extra.insert("max_peak_bytes_per_input_byte_x100".into(), json!(max_ratio_x100));
    rep.extra.insert("max_peak_ratio_input".into(), json!(max_ratio_input));
    rep.extra.insert("max_measured_peak_minus_model_meter".into(), json!(max_over_model));
    rep.notes.push("stack exhaustion and allocator aborts are process-level effects: observed as the death of the child process, not modelled in Lean (the model proves depth <= 128 and the allocation meter bound)".into());
    if let Some((name, body)) = first_break {
        if rep.spec_violations.is_empty() {
            rep.correspondence_break(&name, &format!("model and implementation disagree on {} cases while the specification holds on all explored cases", mismatches), &body);
        }
    }
    rep.write(&args.out);
}
