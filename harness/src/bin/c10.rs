//! C10 — PropertyValue orders: real `Ord::cmp`, `==`, `Hash`, `cypher_order`, `sort()` and
//! `PropertyIndex` against the Lean model `SgModel.PV`, and the order/equality/hash laws
//! (the executable specification) evaluated on the implementation's own observations.
use samyama::graph::property::cypher_order;
use samyama::graph::{NodeId, PropertyValue};
use samyama::index::PropertyIndex;
use serde_json::json;
use std::cmp::Ordering;
use std::collections::hash_map::DefaultHasher;
use std::collections::HashMap;
use std::hash::{Hash, Hasher};
use std::ops::Bound;
use std::panic::{catch_unwind, AssertUnwindSafe};
use vharness::{driver, Args, Known, Report, Rng};

/// protocol-level mirror of `PropertyValue` (floats as bits, map entries key-sorted)
#[derive(Clone, Debug, PartialEq)]
enum V {
    Null,
    Bool(bool),
    Int(i64),
    Flt(u64),
    Str(Vec<u8>),
    Dt(i64),
    Dur(i64, i64, i64, i32),
    Vec(Vec<u32>),
    Arr(Vec<V>),
    Map(Vec<(Vec<u8>, V)>),
}

fn hexs(b: &[u8]) -> String {
    b.iter().map(|x| format!("{:02x}", x)).collect()
}

impl V {
    fn render(&self) -> String {
        match self {
            V::Null => "n".into(),
            V::Bool(b) => format!("b{}", *b as u8),
            V::Int(i) => format!("i{}", i),
            V::Flt(b) => format!("f{:016x}", b),
            V::Str(s) => format!("s{}", hexs(s)),
            V::Dt(t) => format!("t{}", t),
            V::Dur(a, b, c, d) => format!("d{}_{}_{}_{}", a, b, c, d),
            V::Vec(l) => format!("v[{}]", l.iter().map(|x| format!("{:08x}", x)).collect::<Vec<_>>().join(".")),
            V::Arr(xs) => format!("a[{}]", xs.iter().map(|x| x.render()).collect::<Vec<_>>().join(",")),
            V::Map(m) => format!(
                "m{{{}}}",
                m.iter().map(|(k, v)| format!("{}:{}", hexs(k), v.render())).collect::<Vec<_>>().join(",")
            ),
        }
    }
    fn to_pv(&self) -> PropertyValue {
        match self {
            V::Null => PropertyValue::Null,
            V::Bool(b) => PropertyValue::Boolean(*b),
            V::Int(i) => PropertyValue::Integer(*i),
            V::Flt(b) => PropertyValue::Float(f64::from_bits(*b)),
            V::Str(s) => PropertyValue::String(String::from_utf8(s.clone()).expect("utf8")),
            V::Dt(t) => PropertyValue::DateTime(*t),
            V::Dur(a, b, c, d) => PropertyValue::Duration { months: *a, days: *b, seconds: *c, nanos: *d },
            V::Vec(l) => PropertyValue::Vector(l.iter().map(|x| f32::from_bits(*x)).collect()),
            V::Arr(xs) => PropertyValue::Array(xs.iter().map(|x| x.to_pv()).collect()),
            V::Map(m) => {
                let mut h = HashMap::new();
                for (k, v) in m {
                    h.insert(String::from_utf8(k.clone()).expect("utf8"), v.to_pv());
                }
                PropertyValue::Map(h)
            }
        }
    }
    fn variant(&self) -> u8 {
        match self {
            V::Null => 0,
            V::Bool(_) => 1,
            V::Int(_) => 2,
            V::Flt(_) => 3,
            V::Str(_) => 4,
            V::Dt(_) => 5,
            V::Dur(..) => 6,
            V::Vec(_) => 7,
            V::Arr(_) => 8,
            V::Map(_) => 9,
        }
    }
    /// contains a NaN, a signed zero, or a number at the 2^53 / 2^63 rounding boundary
    fn special(&self) -> bool {
        match self {
            V::Flt(b) => {
                let m = b & 0x7fff_ffff_ffff_ffff;
                m > 0x7ff0_0000_0000_0000 || m == 0 || (0x433f_ffff_ffff_fff0..=0x4340_0000_0000_0010).contains(&m) || m >= 0x43d0_0000_0000_0000
            }
            V::Int(i) => i.unsigned_abs() >= (1u64 << 53) - 1,
            // a duration whose nanos are not normalised: seconds and nanos can trade against each other
            V::Dur(_, _, _, n) => *n < 0 || *n >= 1_000_000_000,
            V::Vec(l) => l.iter().any(|x| (x & 0x7fff_ffff) > 0x7f80_0000 || (x & 0x7fff_ffff) == 0),
            V::Arr(xs) => xs.iter().any(|x| x.special()),
            V::Map(m) => m.iter().any(|(_, v)| v.special()),
            _ => false,
        }
    }
}

/// parser of the protocol text (for corpus / replay files)
fn parse_val(s: &[u8], mut p: usize) -> Option<(V, usize)> {
    fn int(s: &[u8], mut p: usize) -> Option<(i64, usize)> {
        let st = p;
        while p < s.len() && (s[p] == b'-' || s[p].is_ascii_digit()) {
            p += 1;
        }
        std::str::from_utf8(&s[st..p]).ok()?.parse().ok().map(|v| (v, p))
    }
    fn hex(s: &[u8], mut p: usize) -> (Vec<u8>, usize) {
        let st = p;
        while p < s.len() && s[p].is_ascii_hexdigit() {
            p += 1;
        }
        (s[st..p].to_vec(), p)
    }
    fn unhex(h: &[u8]) -> Option<Vec<u8>> {
        vharness::util::unhex(std::str::from_utf8(h).ok()?)
    }
    let c = *s.get(p)?;
    p += 1;
    match c {
        b'n' => Some((V::Null, p)),
        b'b' => {
            let d = *s.get(p)?;
            Some((V::Bool(d == b'1'), p + 1))
        }
        b'i' => int(s, p).map(|(v, p)| (V::Int(v), p)),
        b't' => int(s, p).map(|(v, p)| (V::Dt(v), p)),
        b'f' => {
            let (h, q) = hex(s, p);
            if h.len() != 16 {
                return None;
            }
            Some((V::Flt(u64::from_str_radix(std::str::from_utf8(&h).ok()?, 16).ok()?), q))
        }
        b's' => {
            let (h, q) = hex(s, p);
            Some((V::Str(unhex(&h)?), q))
        }
        b'd' => {
            let (a, p) = int(s, p)?;
            let (b, p) = int(s, p + 1)?;
            let (c, p) = int(s, p + 1)?;
            let (d, p) = int(s, p + 1)?;
            Some((V::Dur(a, b, c, d as i32), p))
        }
        b'v' => {
            p += 1; // '['
            let mut l = vec![];
            if *s.get(p)? == b']' {
                return Some((V::Vec(l), p + 1));
            }
            loop {
                let (h, q) = hex(s, p);
                l.push(u32::from_str_radix(std::str::from_utf8(&h).ok()?, 16).ok()?);
                p = q + 1;
                if *s.get(q)? == b']' {
                    return Some((V::Vec(l), p));
                }
            }
        }
        b'a' => {
            p += 1;
            let mut l = vec![];
            if *s.get(p)? == b']' {
                return Some((V::Arr(l), p + 1));
            }
            loop {
                let (v, q) = parse_val(s, p)?;
                l.push(v);
                p = q + 1;
                if *s.get(q)? == b']' {
                    return Some((V::Arr(l), p));
                }
            }
        }
        b'm' => {
            p += 1;
            let mut l = vec![];
            if *s.get(p)? == b'}' {
                return Some((V::Map(l), p + 1));
            }
            loop {
                let (h, q) = hex(s, p);
                let (v, q) = parse_val(s, q + 1)?;
                l.push((unhex(&h)?, v));
                p = q + 1;
                if *s.get(q)? == b'}' {
                    return Some((V::Map(l), p));
                }
            }
        }
        _ => None,
    }
}

fn parse_vals(s: &str) -> Option<Vec<V>> {
    s.split(';')
        .map(|t| parse_val(t.as_bytes(), 0).and_then(|(v, p)| if p == t.len() { Some(v) } else { None }))
        .collect()
}

/// records every call `Hash::hash` makes on the hasher
#[derive(Default)]
struct Rec(Vec<String>);
impl Hasher for Rec {
    fn finish(&self) -> u64 {
        0
    }
    fn write(&mut self, b: &[u8]) {
        self.0.push(format!("b:{}", hexs(b)));
    }
    fn write_u8(&mut self, i: u8) {
        self.0.push(format!("u8:{}", i));
    }
    fn write_u32(&mut self, i: u32) {
        self.0.push(format!("u32:{}", i));
    }
    fn write_u64(&mut self, i: u64) {
        self.0.push(format!("u64:{}", i));
    }
    fn write_usize(&mut self, i: usize) {
        self.0.push(format!("usz:{}", i));
    }
    fn write_i32(&mut self, i: i32) {
        self.0.push(format!("i32:{}", i));
    }
    fn write_i64(&mut self, i: i64) {
        self.0.push(format!("i64:{}", i));
    }
}

fn och(o: Ordering) -> char {
    match o {
        Ordering::Less => 'l',
        Ordering::Equal => 'e',
        Ordering::Greater => 'g',
    }
}

struct Obs {
    cmp: String,
    eq: String,
    cy: String,
    heq: String,
    words: String,
}

fn observe(pvs: &[PropertyValue]) -> Obs {
    let n = pvs.len();
    let mut o = Obs { cmp: String::with_capacity(n * n), eq: String::new(), cy: String::new(), heq: String::new(), words: String::new() };
    let hashes: Vec<u64> = pvs
        .iter()
        .map(|v| {
            let mut h = DefaultHasher::new();
            v.hash(&mut h);
            h.finish()
        })
        .collect();
    let words: Vec<String> = pvs
        .iter()
        .map(|v| {
            let mut r = Rec::default();
            v.hash(&mut r);
            r.0.join(",")
        })
        .collect();
    for i in 0..n {
        for j in 0..n {
            o.cmp.push(och(pvs[i].cmp(&pvs[j])));
            o.eq.push(if pvs[i] == pvs[j] { '1' } else { '0' });
            o.cy.push(och(cypher_order(&pvs[i], &pvs[j])));
            o.heq.push(if hashes[i] == hashes[j] { '1' } else { '0' });
        }
    }
    o.words = words.join(";");
    o
}

fn s(x: &str) -> V {
    V::Str(x.as_bytes().to_vec())
}
fn k(x: &str) -> Vec<u8> {
    x.as_bytes().to_vec()
}

const QNAN: u64 = 0x7ff8_0000_0000_0000;
const SNAN: u64 = 0x7ff0_0000_0000_0001;
const NQNAN: u64 = 0xfff8_0000_0000_0000;
const NSNAN: u64 = 0xfff0_0000_0000_0001;
const P53: u64 = 0x4340_0000_0000_0000;

fn scalar_pool() -> Vec<V> {
    let mut v = vec![V::Null, V::Bool(false), V::Bool(true)];
    for i in [0i64, 1, -1, 2, (1 << 53) - 1, 1 << 53, (1 << 53) + 1, (1 << 53) + 2, -((1 << 53) + 1), i64::MAX, i64::MAX - 1, i64::MIN, i64::MIN + 1] {
        v.push(V::Int(i));
    }
    for b in [
        0u64,
        0x8000_0000_0000_0000,
        0x3ff0_0000_0000_0000,
        0xbff0_0000_0000_0000,
        0x4000_0000_0000_0000,
        0x3fe0_0000_0000_0000,
        P53,
        P53 + 1,
        P53 - 1,
        P53 | (1 << 63),
        0x43e0_0000_0000_0000,
        0xc3e0_0000_0000_0000,
        0x43df_ffff_ffff_ffff,
        0x7ff0_0000_0000_0000,
        0xfff0_0000_0000_0000,
        QNAN,
        SNAN,
        NQNAN,
        NSNAN,
        1,
        0x8000_0000_0000_0001,
    ] {
        v.push(V::Flt(b));
    }
    for t in ["", "a", "ab", "b", "é"] {
        v.push(s(t));
    }
    for t in [0i64, -1, i64::MAX] {
        v.push(V::Dt(t));
    }
    for d in [(0, 0, 0, 0), (1, 0, 0, 0), (0, 0, 0, 1), (0, 0, 0, -1), (-1, 5, 5, 5)] {
        v.push(V::Dur(d.0, d.1, d.2, d.3));
    }
    v
}

fn boundary_set() -> Vec<V> {
    let mut v = scalar_pool();
    let a = |xs: Vec<V>| V::Arr(xs);
    v.extend([
        a(vec![]),
        a(vec![V::Null]),
        a(vec![V::Int(1)]),
        a(vec![V::Flt(0x3ff0_0000_0000_0000)]),
        a(vec![V::Int(1), V::Int(2)]),
        a(vec![a(vec![])]),
        a(vec![V::Flt(QNAN)]),
        a(vec![V::Flt(NQNAN)]),
        a(vec![V::Flt(0)]),
        a(vec![V::Flt(1 << 63)]),
        a(vec![s("a")]),
    ]);
    let m = |xs: Vec<(&str, V)>| V::Map(xs.into_iter().map(|(kk, vv)| (k(kk), vv)).collect());
    v.extend([
        m(vec![]),
        m(vec![("a", V::Int(1))]),
        m(vec![("a", V::Flt(0x3ff0_0000_0000_0000))]),
        m(vec![("a", V::Int(1)), ("b", V::Int(2))]),
        m(vec![("b", V::Int(1))]),
        m(vec![("a", V::Flt(QNAN))]),
        m(vec![("a", V::Flt(NQNAN))]),
        m(vec![("a", V::Flt(0))]),
        m(vec![("a", V::Flt(1 << 63))]),
        m(vec![("", V::Null)]),
    ]);
    v.extend([
        V::Vec(vec![]),
        V::Vec(vec![0]),
        V::Vec(vec![0x8000_0000]),
        V::Vec(vec![0x7fc0_0000]),
        V::Vec(vec![0xffc0_0000]),
        V::Vec(vec![0x3f80_0000]),
        V::Vec(vec![0x3f80_0000, 0x4000_0000]),
    ]);
    v
}

const NS: i32 = 1_000_000_000;
const MONTH_S: i64 = 2_629_746; // the average month openCypher uses to order durations
const DAY_S: i64 = 86_400;

/// A coarser notion of equality that must NOT leak into `Ord`: the "length" of a duration, the
/// numeric value of a number / datetime, the component list of an array / vector, keys + coarse
/// values of a map, a case-folded string.  Two different values with the same coarse key are the
/// pairs an order "by meaning" would merge into one index key.
fn coarse_key(v: &V) -> String {
    fn num(x: f64) -> String {
        if x == 0.0 { "#0".into() } else { format!("#{:e}", x) }
    }
    match v {
        V::Null => "null".into(),
        V::Bool(b) => num(*b as u8 as f64),
        V::Int(i) => num(*i as f64),
        V::Dt(t) => num(*t as f64),
        V::Flt(b) => num(f64::from_bits(*b)),
        V::Str(s) => format!("s{}", String::from_utf8_lossy(s).to_lowercase().replace('\u{301}', "").replace('é', "e").trim()),
        V::Dur(m, d, sec, n) => {
            let t = ((*m as i128) * MONTH_S as i128 + (*d as i128) * DAY_S as i128 + *sec as i128) * NS as i128 + *n as i128;
            format!("dur{}", t)
        }
        V::Vec(l) => format!("[{}]", l.iter().map(|x| num(f32::from_bits(*x) as f64)).collect::<Vec<_>>().join(",")),
        V::Arr(xs) => format!("[{}]", xs.iter().map(coarse_key).collect::<Vec<_>>().join(",")),
        V::Map(m) => format!(
            "{{{}}}",
            m.iter().map(|(k, v)| format!("{}:{}", String::from_utf8_lossy(k).to_lowercase(), coarse_key(v))).collect::<Vec<_>>().join(",")
        ),
    }
}

/// Families of pairwise DIFFERENT values several of which are "the same" under a coarser notion
/// of equality.  On every family all pairs must satisfy `cmp = Equal <-> identical`, `==` false,
/// distinct index keys.
fn families() -> Vec<(&'static str, Vec<V>)> {
    let d = |m: i64, dd: i64, s: i64, n: i64| V::Dur(m, dd, s, n as i32);
    let a = |xs: Vec<V>| V::Arr(xs);
    let m = |xs: Vec<(&str, V)>| V::Map(xs.into_iter().map(|(kk, vv)| (k(kk), vv)).collect());
    let one = 0x3ff0_0000_0000_0000u64;
    let two = 0x4000_0000_0000_0000u64;
    let five = 0x4014_0000_0000_0000u64;
    let ns = NS as i64;
    let mut out: Vec<(&'static str, Vec<V>)> = vec![];
    // sub-day part: several (seconds, nanos) splits of one total, nanos negative / >= 1e9 / multiples / i32 extremes
    out.push((
        "duration-seconds-nanos-splits",
        vec![
            d(0, 0, 0, 0), d(0, 0, 1, -ns), d(0, 0, -1, ns), d(0, 0, 2, -2 * ns), d(0, 0, -2, 2 * ns),
            d(0, 0, 0, ns / 2), d(0, 0, 1, -ns / 2), d(0, 0, -1, 3 * ns / 2), d(0, 0, 2, -3 * ns / 2),
            d(0, 0, 1, 0), d(0, 0, 0, ns), d(0, 0, 2, -ns), d(0, 0, -1, 2 * ns), d(0, 0, 3, -2 * ns),
            d(0, 0, 0, 1), d(0, 0, 1, 1 - ns), d(0, 0, 0, -1), d(0, 0, -1, ns - 1), d(0, 0, 0, ns - 1), d(0, 0, 1, -1),
            d(0, 0, 0, i32::MAX as i64), d(0, 0, 2, i32::MAX as i64 - 2 * ns), d(0, 0, 1, i32::MAX as i64 - ns),
            d(0, 0, 0, i32::MIN as i64), d(0, 0, -2, i32::MIN as i64 + 2 * ns), d(0, 0, -1, i32::MIN as i64 + ns),
            d(5, 7, 1, -ns / 2), d(5, 7, 0, ns / 2), d(-1, 31, 0, ns), d(-1, 31, 1, 0),
        ],
    ));
    // calendar part: months / days / seconds combinations of equal length
    out.push((
        "duration-equal-length-calendar",
        vec![
            d(0, 1, 0, 0), d(0, 0, DAY_S, 0), d(0, 0, DAY_S - 1, ns), d(0, 2, -DAY_S, 0), d(0, 0, DAY_S + 1, -ns), d(0, -1, 2 * DAY_S, 0),
            d(1, 0, 0, 0), d(0, 0, MONTH_S, 0), d(0, 30, 37_746, 0), d(0, 30, 37_745, ns), d(0, 31, -48_654, 0), d(2, 0, -MONTH_S, 0),
            d(1, 1, -DAY_S, 0), d(1, -1, DAY_S, 0), d(-1, 0, 2 * MONTH_S, 0), d(0, 0, MONTH_S - 1, ns), d(1, 0, 1, -ns),
            d(0, 0, 0, 0), d(0, 1, -DAY_S, 0), d(1, 0, -MONTH_S, 0), d(1, -30, -37_746, 0), d(-1, 30, 37_746, 0), d(0, -1, DAY_S - 1, ns),
            d(0, 0, 129_600, 0), d(0, 1, 43_200, 0), d(0, 45, 0, 0), d(1, 14, 49_254 - DAY_S, 0), d(12, 0, 0, 0), d(0, 365, 20_952, 0), d(0, 0, 12 * MONTH_S, 0),
            d(i64::MAX, 0, 0, 0), d(i64::MAX - 1, 0, MONTH_S, 0), d(0, i64::MAX, 0, 0), d(0, i64::MAX - 1, DAY_S, 0), d(0, 0, i64::MAX, 0), d(0, 0, i64::MAX - 1, ns),
            d(i64::MIN, 0, 0, 0), d(i64::MIN + 1, 0, -MONTH_S, 0), d(0, 0, i64::MIN, 0), d(0, 0, i64::MIN + 1, -ns),
        ],
    ));
    // numbers, datetimes, booleans, strings, durations and containers "worth" 0, 1 or 5
    out.push((
        "equal-numeric-value",
        vec![
            V::Int(0), V::Flt(0), V::Dt(0), V::Bool(false), V::Null, s(""), s("0"), d(0, 0, 0, 0), a(vec![]), m(vec![]), V::Vec(vec![]),
            V::Int(1), V::Flt(one), V::Dt(1), V::Bool(true), s("1"), s("true"), d(0, 0, 1, 0), d(0, 0, 0, 1), d(1, 0, 0, 0), d(0, 1, 0, 0),
            V::Int(5), V::Flt(five), V::Dt(5), s("5"), d(0, 0, 5, 0), d(0, 0, 0, 5), a(vec![V::Int(5)]), V::Vec(vec![0x40a0_0000]),
            V::Int(-1), V::Flt(one | 1 << 63), V::Dt(-1), d(0, 0, -1, 0), d(0, 0, 0, -1),
            V::Int(1_000_000_000), V::Dt(1_000_000_000), V::Flt(0x41cd_cd65_0000_0000), d(0, 0, 0, ns), d(0, 0, 1_000_000_000, 0),
        ],
    ));
    // arrays vs vectors (vs arrays of other number types) with equal components
    out.push((
        "array-vector-equal-components",
        vec![
            a(vec![]), V::Vec(vec![]),
            a(vec![V::Flt(one)]), a(vec![V::Int(1)]), a(vec![V::Dt(1)]), a(vec![V::Bool(true)]), V::Vec(vec![0x3f80_0000]), a(vec![a(vec![V::Int(1)])]), a(vec![V::Vec(vec![0x3f80_0000])]),
            a(vec![V::Flt(one), V::Flt(two)]), a(vec![V::Int(1), V::Int(2)]), a(vec![V::Int(1), V::Flt(two)]), a(vec![V::Flt(one), V::Int(2)]),
            a(vec![V::Dt(1), V::Dt(2)]), V::Vec(vec![0x3f80_0000, 0x4000_0000]), a(vec![a(vec![V::Int(1), V::Int(2)])]), a(vec![a(vec![V::Int(1)]), a(vec![V::Int(2)])]),
            a(vec![V::Flt(0x3fe0_0000_0000_0000)]), V::Vec(vec![0x3f00_0000]),
            a(vec![d(0, 0, 1, 0)]), a(vec![d(0, 0, 0, ns)]), a(vec![d(0, 0, 2, -ns)]),
            a(vec![V::Int(1), V::Null]), a(vec![V::Int(1), V::Int(0)]), a(vec![V::Int(1), V::Flt(0)]),
        ],
    ));
    // maps with the same keys (or keys equal up to case) and "equal" values
    out.push((
        "map-same-keys",
        vec![
            m(vec![("a", V::Int(1))]), m(vec![("a", V::Flt(one))]), m(vec![("a", V::Dt(1))]), m(vec![("a", V::Bool(true))]), m(vec![("a", s("1"))]),
            m(vec![("a", a(vec![V::Int(1)]))]), m(vec![("a", V::Vec(vec![0x3f80_0000]))]), m(vec![("a", m(vec![("a", V::Int(1))]))]),
            m(vec![("A", V::Int(1))]), m(vec![("A", V::Flt(one))]),
            m(vec![("a", V::Int(1)), ("b", V::Int(2))]), m(vec![("a", V::Flt(one)), ("b", V::Int(2))]), m(vec![("a", V::Int(1)), ("b", V::Flt(two))]),
            m(vec![("a", V::Flt(one)), ("b", V::Flt(two))]), m(vec![("a", V::Int(2)), ("b", V::Int(1))]), m(vec![("A", V::Int(1)), ("b", V::Int(2))]),
            m(vec![("a", d(0, 0, 1, 0))]), m(vec![("a", d(0, 0, 0, ns))]), m(vec![("a", d(0, 0, 2, -ns))]), m(vec![("a", d(0, 1, 0, 0))]), m(vec![("a", d(0, 0, DAY_S, 0))]),
            m(vec![("a", V::Null)]), m(vec![]), m(vec![("a", V::Int(0))]), m(vec![("a", V::Flt(0))]),
        ],
    ));
    // strings equal up to case / unicode composition / surrounding blanks
    out.push((
        "string-folding",
        vec![
            s("a"), s("A"), s("a "), s(" a"), s("é"), s("e\u{301}"), s("É"), s("e"), s("E"), s("ab"), s("aB"), s("Ab"), s("AB"), s(""), s(" "),
        ],
    ));
    out
}

fn rand_dur(rng: &mut Rng) -> V {
    const MO: [i64; 6] = [0, 0, 0, 1, -1, 2];
    const DA: [i64; 10] = [0, 0, 0, 1, -1, 2, 30, 31, -30, 45];
    const SE: [i64; 18] = [0, 0, 0, 1, -1, 2, -2, 3, 37_745, 37_746, -37_746, DAY_S - 1, DAY_S, DAY_S + 1, -DAY_S, MONTH_S, -MONTH_S, MONTH_S - 1];
    const NA: [i32; 16] = [0, 0, 0, 1, -1, NS / 2, -NS / 2, NS - 1, 1 - NS, NS, -NS, NS / 2 * 3, -(NS / 2 * 3), 2 * NS, -2 * NS, i32::MAX];
    V::Dur(
        *rng.pick(&MO),
        *rng.pick(&DA),
        if rng.chance(1, 6) { rng.range(-5, 5) } else { *rng.pick(&SE) },
        if rng.chance(1, 8) { rng.next_u64() as i32 } else { *rng.pick(&NA) },
    )
}

/// another spelling of (nearly) the same length: trade seconds against nanos, days against
/// seconds, months against days/seconds -- or move one field by one
fn mutate_dur(rng: &mut Rng, m: i64, d: i64, sec: i64, n: i32) -> V {
    match rng.below(7) {
        0 | 1 => {
            let kk = *rng.pick(&[1i64, -1, 2, -2]);
            match ((n as i64) - kk * NS as i64).try_into() {
                Ok(n2) => V::Dur(m, d, sec.wrapping_add(kk), n2),
                Err(_) => V::Dur(m, d, sec, n.wrapping_add(1)),
            }
        }
        2 => {
            let kk = *rng.pick(&[1i64, -1]);
            V::Dur(m, d.wrapping_add(kk), sec.wrapping_sub(kk * DAY_S), n)
        }
        3 => {
            let kk = *rng.pick(&[1i64, -1]);
            V::Dur(m.wrapping_add(kk), d, sec.wrapping_sub(kk * MONTH_S), n)
        }
        4 => {
            let kk = *rng.pick(&[1i64, -1]);
            V::Dur(m.wrapping_add(kk), d.wrapping_sub(kk * 30), sec.wrapping_sub(kk * 37_746), n)
        }
        5 => V::Dur(m, d, sec.wrapping_add(rng.range(-1, 1)), n),
        _ => V::Dur(m, d, sec, n.wrapping_add(rng.range(-1, 1) as i32)),
    }
}

/// the same "meaning" in another variant: Integer / DateTime / Float of one numeric value,
/// Vector / Array of the same components
fn respell(rng: &mut Rng, v: &V) -> Option<V> {
    Some(match v {
        V::Int(i) => match rng.below(3) {
            0 => V::Dt(*i),
            1 => V::Flt((*i as f64).to_bits()),
            _ => V::Dur(0, 0, *i, 0),
        },
        V::Dt(t) => if rng.chance(1, 2) { V::Int(*t) } else { V::Flt((*t as f64).to_bits()) },
        V::Flt(b) => {
            let x = f64::from_bits(*b);
            if x.is_finite() && x.fract() == 0.0 && x.abs() < 9.0e18 {
                if rng.chance(1, 2) { V::Int(x as i64) } else { V::Dt(x as i64) }
            } else {
                return None;
            }
        }
        V::Vec(l) => V::Arr(l.iter().map(|x| V::Flt((f32::from_bits(*x) as f64).to_bits())).collect()),
        V::Arr(xs) if xs.iter().all(|x| matches!(x, V::Flt(_) | V::Int(_))) => V::Vec(
            xs.iter()
                .map(|x| match x {
                    V::Flt(b) => (f64::from_bits(*b) as f32).to_bits(),
                    V::Int(i) => (*i as f32).to_bits(),
                    _ => 0,
                })
                .collect(),
        ),
        V::Str(t) => {
            let u = String::from_utf8_lossy(t).to_string();
            let f = if rng.chance(1, 2) { u.to_uppercase() } else { format!("{} ", u) };
            V::Str(f.into_bytes())
        }
        _ => return None,
    })
}

fn rand_scalar(rng: &mut Rng, pool: &[V]) -> V {
    if rng.chance(1, 8) {
        return rand_dur(rng);
    }
    if rng.chance(1, 16) {
        let t = rng.range(-3, 3);
        return match rng.below(3) {
            0 => V::Dt(t),
            1 => V::Int(t),
            _ => V::Flt((t as f64).to_bits()),
        };
    }
    match rng.below(10) {
        0..=4 => rng.pick(pool).clone(),
        5 => V::Int(rng.next_u64() as i64),
        6 => V::Int(((1i64 << 53) + rng.range(-4, 4)) * if rng.chance(1, 2) { 1 } else { -1 }),
        7 => V::Flt(rng.next_u64()),
        8 => V::Flt((P53 as i64 + rng.range(-4, 4)) as u64 | if rng.chance(1, 2) { 1 << 63 } else { 0 }),
        _ => V::Flt((0x43e0_0000_0000_0000i64 + rng.range(-3, 1)) as u64 | if rng.chance(1, 2) { 1 << 63 } else { 0 }),
    }
}

const LANES: [u32; 8] = [0, 0x8000_0000, 0x7fc0_0000, 0xffc0_0000, 0x3f80_0000, 0xbf80_0000, 0x7f80_0000, 0x7f80_0001];
const KEYS: [&str; 5] = ["", "a", "ab", "b", "é"];

fn rand_val(rng: &mut Rng, pool: &[V], depth: u32) -> V {
    let c = rng.below(10);
    if depth == 0 || c < 5 {
        return rand_scalar(rng, pool);
    }
    match c {
        5 | 6 => V::Arr((0..rng.usize(4)).map(|_| rand_val(rng, pool, depth - 1)).collect()),
        7 | 8 => {
            let mut ks: Vec<&str> = KEYS.iter().filter(|_| rng.chance(2, 5)).cloned().collect();
            ks.sort_by(|a, b| a.as_bytes().cmp(b.as_bytes()));
            V::Map(ks.into_iter().map(|kk| (k(kk), rand_val(rng, pool, depth - 1))).collect())
        }
        _ => V::Vec((0..rng.usize(4)).map(|_| if rng.chance(4, 5) { *rng.pick(&LANES) } else { rng.next_u64() as u32 }).collect()),
    }
}

/// change one place of a value (so that comparisons have to look deep)
fn mutate(rng: &mut Rng, pool: &[V], v: &V) -> V {
    if rng.chance(1, 5) {
        if let Some(w) = respell(rng, v) {
            return w;
        }
    }
    match v {
        V::Dur(m, d, sec, n) if rng.chance(7, 8) => mutate_dur(rng, *m, *d, *sec, *n),
        V::Arr(xs) if !xs.is_empty() && rng.chance(3, 4) => {
            let mut ys = xs.clone();
            let i = rng.usize(ys.len());
            match rng.below(4) {
                0 => {
                    ys.remove(i);
                }
                1 => ys.push(rand_val(rng, pool, 1)),
                _ => ys[i] = mutate(rng, pool, &xs[i]),
            }
            V::Arr(ys)
        }
        V::Map(m) if !m.is_empty() && rng.chance(3, 4) => {
            let mut ys = m.clone();
            let i = rng.usize(ys.len());
            if rng.chance(1, 4) {
                ys.remove(i);
            } else {
                ys[i].1 = mutate(rng, pool, &m[i].1);
            }
            V::Map(ys)
        }
        V::Vec(l) if !l.is_empty() && rng.chance(3, 4) => {
            let mut ys = l.clone();
            let i = rng.usize(ys.len());
            ys[i] = *rng.pick(&LANES);
            V::Vec(ys)
        }
        V::Flt(b) if rng.chance(1, 2) => V::Flt(b ^ (1 << rng.below(64))),
        V::Int(i) if rng.chance(1, 2) => V::Int(i.wrapping_add(rng.range(-2, 2))),
        _ => rand_val(rng, pool, 2),
    }
}

fn shuffle<T>(rng: &mut Rng, xs: &mut [T]) {
    for i in (1..xs.len()).rev() {
        xs.swap(i, rng.usize(i + 1));
    }
}

fn join_vals(vs: &[V]) -> String {
    vs.iter().map(|v| v.render()).collect::<Vec<_>>().join(";")
}

fn main() {
    let args = Args::parse();
    // sort()/BTreeMap may panic on an unlawful order; those are caught and reported as cases
    std::panic::set_hook(Box::new(|_| {}));
    let known = Known::load(&args.known, "C10");
    let mut rep = Report::new(
        "C10",
        "a case is an ordered triple (a,b,c) of property values on which cmp/==/hash/cypher_order were all evaluated on the real code; \
         non-trivial = pairwise distinct and (spans >= 2 variants or contains a NaN / signed zero / 2^53- or 2^63-boundary number); \
         distinct = distinct rendered triple",
        &args.replays,
        args.seed,
    );
    let exe = args.driver_exe("drv_pv");
    let pool = scalar_pool();
    let boundary = boundary_set();

    // ---------------- value sets: corpus / replay, the boundary set, random sets ----------------
    let mut sets: Vec<Vec<V>> = vec![];
    let mut files: Vec<std::path::PathBuf> = vec![];
    if let Some(r) = &args.replay {
        files.push(r.clone());
    } else if let Ok(rd) = std::fs::read_dir(args.corpus.join("C10")) {
        files = rd.filter_map(|e| e.ok().map(|e| e.path())).collect();
        files.sort();
    }
    let mut n_corpus = 0;
    for f in &files {
        for line in std::fs::read_to_string(f).unwrap_or_default().lines() {
            let line = line.trim();
            if let Some(t) = line.strip_prefix("vals ") {
                match parse_vals(t.trim()) {
                    Some(vs) => {
                        sets.push(vs);
                        n_corpus += 1;
                    }
                    None => rep.notes.push(format!("unparsable corpus line in {}: {}", f.display(), line)),
                }
            }
        }
    }
    rep.count_n("corpus_sets", n_corpus);
    let mut rng = Rng::new(args.seed);
    let mut sort_cases: Vec<Vec<V>> = vec![];
    if args.replay.is_none() {
        sets.push(boundary.clone());
        rep.exhaustive = true;
        rep.exhaustive_note = format!(
            "all {}^3 ordered triples over the enumerated boundary set of {} values (every variant; signed zeros, 4 NaN patterns, infinities, 2^53 and 2^63 neighbourhoods as Integer and Float, i64 extremes, empty/nested arrays and maps, vectors with 0/-0/NaN lanes, durations, datetimes, null), and all n^3 triples over each of the enumerated families of different-but-equivalent values (duration splits of one length with nanos outside [0,1e9), months/days/seconds of equal length, Integer/Float/DateTime/Boolean/String of one numeric value, arrays vs vectors with equal components, maps with the same keys, strings equal up to case -- bare and nested in arrays/maps); plus random sets (not exhaustive)",
            boundary.len(), boundary.len()
        );
        // families of different values that a coarser equality (length, numeric value, components,
        // keys, case) would merge: every pair must be told apart by cmp, == and the index
        let mut fam_sets: Vec<(String, Vec<V>)> = vec![];
        for (name, vals) in families() {
            let wrap_a: Vec<V> = vals.iter().map(|v| V::Arr(vec![v.clone()])).collect();
            let wrap_m: Vec<V> = vals.iter().map(|v| V::Map(vec![(k("a"), v.clone())])).collect();
            let wrap_t: Vec<V> = vals.iter().map(|v| V::Arr(vec![V::Int(7), V::Map(vec![(k("k"), v.clone())])])).collect();
            fam_sets.push((name.to_string(), vals));
            if name.starts_with("duration") || name == "equal-numeric-value" {
                fam_sets.push((format!("{}/in-array", name), wrap_a));
                fam_sets.push((format!("{}/in-map", name), wrap_m));
                fam_sets.push((format!("{}/in-array-map", name), wrap_t));
            }
        }
        for (name, vals) in &fam_sets {
            let pvs: Vec<PropertyValue> = vals.iter().map(|v| v.to_pv()).collect();
            let rs: Vec<String> = vals.iter().map(|v| v.render()).collect();
            let ck: Vec<String> = vals.iter().map(coarse_key).collect();
            let (mut pairs, mut coarse) = (0u64, 0u64);
            let mut reported = false;
            for i in 0..vals.len() {
                for j in 0..vals.len() {
                    if i == j {
                        continue;
                    }
                    if rs[i] == rs[j] {
                        rep.notes.push(format!("family {} lists {} twice", name, rs[i]));
                        continue;
                    }
                    pairs += 1;
                    if ck[i] == ck[j] {
                        coarse += 1;
                    }
                    let body = format!("vals {};{}", rs[i], rs[j]);
                    if pvs[i].cmp(&pvs[j]) == Ordering::Equal {
                        rep.count("law_violation:ord-equal-distinct-values");
                        if reported {
                            continue; // one witness per family; the counter keeps the total
                        }
                        reported = true;
                        rep.spec_violation(
                            &known,
                            "ord-equal-distinct-values",
                            &format!("family {}: cmp({}, {}) = Equal although the two values differ{}", name, rs[i], rs[j],
                                if ck[i] == ck[j] { " (they only agree in length / numeric value / components)" } else { "" }),
                            &body,
                        );
                    }
                    if pvs[i] == pvs[j] {
                        rep.count("law_violation:eq-distinct-values");
                        rep.spec_violation(&known, "eq-distinct-values", &format!("family {}: {} == {} although the two values differ", name, rs[i], rs[j]), &body);
                    }
                }
            }
            rep.count_n("family_pairs_checked", pairs);
            rep.count_n("family_pairs_coarse_equal", coarse);
            rep.count_n(&format!("family_pairs_coarse_equal:{}", name), coarse);
            if coarse == 0 {
                rep.notes.push(format!("family {} has no pair that a coarser equality would merge", name));
            }
            sets.push(vals.clone());
            sort_cases.push(vals.clone());
            // multisets drawn from the family (duplicates included), as sort / index cases
            for _ in 0..(if args.thorough() { 40 } else { 6 }) {
                let len = 4 + rng.usize(20);
                sort_cases.push((0..len).map(|_| rng.pick(vals).clone()).collect());
            }
        }
        rep.count_n("family_sets", fam_sets.len() as u64);
        let n_sets = if args.thorough() { 40_000 } else { 6_000 };
        for _ in 0..n_sets {
            let mut set: Vec<V> = vec![];
            for _ in 0..6 {
                let v = if !set.is_empty() && rng.chance(1, 2) {
                    let b = rng.pick(&set).clone();
                    mutate(&mut rng, &pool, &b)
                } else {
                    rand_val(&mut rng, &pool, 3)
                };
                set.push(v);
            }
            sets.push(set);
        }
        let n_sorts = if args.thorough() { 15_000 } else { 2_000 };
        for _ in 0..n_sorts {
            let len = 3 + rng.usize(28);
            let mut xs: Vec<V> = vec![];
            for _ in 0..len {
                let v = match rng.below(4) {
                    0 => rng.pick(&boundary).clone(),
                    1 if !xs.is_empty() => {
                        let b = rng.pick(&xs).clone();
                        mutate(&mut rng, &pool, &b)
                    }
                    _ => rand_val(&mut rng, &pool, 2),
                };
                xs.push(v);
            }
            sort_cases.push(xs);
        }
    } else {
        // a replayed set is also replayed as a sort / index case
        sort_cases = sets.clone();
    }

    // ---------------- 1. laws on triples + model agreement ----------------
    let t_start = std::time::Instant::now();
    let mut first_break: Option<String> = None;
    for chunk in sets.chunks(4000) {
        let rendered: Vec<String> = chunk.iter().map(|s| join_vals(s)).collect();
        let obs: Vec<Obs> = chunk.iter().map(|s| observe(&s.iter().map(|v| v.to_pv()).collect::<Vec<_>>())).collect();
        let mut lines = Vec::with_capacity(chunk.len() * 2);
        for (r, o) in rendered.iter().zip(obs.iter()) {
            lines.push(format!("run {}", r));
            lines.push(format!("spec {} {} {} {} {}", r, o.cmp, o.eq, o.cy, o.heq));
        }
        let replies = driver::par_batch(&exe, &lines, 8);
        for (x, set) in chunk.iter().enumerate() {
            let m = &replies[2 * x];
            let sp = &replies[2 * x + 1];
            let o = &obs[x];
            let n = set.len();
            let rs: Vec<String> = set.iter().map(|v| v.render()).collect();
            let sp_flags: Vec<bool> = set.iter().map(|v| v.special()).collect();
            for i in 0..n {
                for j in 0..n {
                    for l in 0..n {
                        let distinct = rs[i] != rs[j] && rs[j] != rs[l] && rs[i] != rs[l];
                        let nt = distinct
                            && (set[i].variant() != set[j].variant()
                                || set[j].variant() != set[l].variant()
                                || sp_flags[i]
                                || sp_flags[j]
                                || sp_flags[l]);
                        rep.case(&format!("{}|{}|{}", rs[i], rs[j], rs[l]), nt);
                    }
                }
            }
            for v in set {
                rep.count(&format!("variant:{}", v.to_pv().type_name()));
            }
            if rep.samples.len() < 3 && n <= 8 && set.iter().any(|v| v.special()) {
                rep.sample(json!({"values": rendered[x], "cmp": o.cmp, "eq": o.eq, "cypher_order": o.cy, "hash_equal": o.heq}));
            }
            if sp == "ok" {
                rep.count("sets_spec_ok");
            } else if let Some(vs) = sp.strip_prefix("viol ") {
                for item in vs.split(' ') {
                    let (sig, w) = item.split_once(':').unwrap_or((item, ""));
                    let idx: Vec<usize> = w.split('.').filter_map(|t| t.parse().ok()).collect();
                    let mut tri: Vec<V> = idx.iter().filter_map(|i| set.get(*i).cloned()).collect();
                    tri.dedup();
                    rep.count(&format!("law_violation:{}", sig));
                    let body = format!("vals {}", join_vals(&tri));
                    rep.spec_violation(
                        &known,
                        sig,
                        &format!("law `{}` violated by the real code on ({})", sig, join_vals(&tri)),
                        &body,
                    );
                }
            } else {
                rep.count("driver_rejected");
                rep.spec_violation(&known, "driver-rejected", &format!("driver answered `{}`", sp), &format!("vals {}", rendered[x]));
            }
            let expect = format!("ok {} {} {} {}", o.cmp, o.eq, o.cy, o.words);
            if *m != expect {
                rep.count("model_mismatch_sets");
                if first_break.is_none() {
                    // shrink to a pair/triple that still differs
                    let mut body = format!("vals {}\nimpl  {}\nmodel {}", rendered[x], expect, m);
                    'outer: for i in 0..n {
                        for j in 0..n {
                            let pair = vec![set[i].clone(), set[j].clone()];
                            let po = observe(&pair.iter().map(|v| v.to_pv()).collect::<Vec<_>>());
                            let pm = driver::batch(&exe, &[format!("run {}", join_vals(&pair))]);
                            let pe = format!("ok {} {} {} {}", po.cmp, po.eq, po.cy, po.words);
                            if pm[0] != pe {
                                body = format!("vals {}\nimpl  {}\nmodel {}", join_vals(&pair), pe, pm[0]);
                                break 'outer;
                            }
                        }
                    }
                    first_break = Some(body);
                }
            }
        }
    }

    let t_sets = t_start.elapsed().as_secs_f64();
    // ---------------- 2. sort() and PropertyIndex under several insertion orders ----------------
    let mut lines = vec![];
    let mut range_q: Vec<Vec<(usize, usize)>> = vec![];
    for xs in &sort_cases {
        lines.push(format!("sort {}", join_vals(xs)));
        let mut qs = vec![];
        for _ in 0..3 {
            let (a, b) = (rng.usize(xs.len()), rng.usize(xs.len()));
            qs.push((a, b));
            lines.push(format!("range {};{};{}", xs[a].render(), xs[b].render(), join_vals(xs)));
        }
        range_q.push(qs);
    }
    let replies = if lines.is_empty() { vec![] } else { driver::par_batch(&exe, &lines, 8) };
    for (x, xs) in sort_cases.iter().enumerate() {
        let base = 4 * x;
        let pvs: Vec<PropertyValue> = xs.iter().map(|v| v.to_pv()).collect();
        let rs: Vec<String> = xs.iter().map(|v| v.render()).collect();
        let body = format!("vals {}", join_vals(xs));
        rep.count("sort_cases");
        // (a) sort under several insertion orders
        let mut outs: Vec<Option<Vec<String>>> = vec![];
        for t in 0..4 {
            let mut order: Vec<usize> = (0..xs.len()).collect();
            if t > 0 {
                shuffle(&mut rng, &mut order);
            }
            let mut tagged: Vec<(PropertyValue, usize)> = order.iter().map(|i| (pvs[*i].clone(), *i)).collect();
            let r = catch_unwind(AssertUnwindSafe(|| {
                tagged.sort_by(|a, b| a.0.cmp(&b.0));
                tagged.iter().map(|(_, i)| rs[*i].clone()).collect::<Vec<_>>()
            }));
            outs.push(r.ok());
        }
        let model_sorted: Option<Vec<String>> = replies[base].strip_prefix("ok ").map(|t| {
            t.split(',').filter_map(|i| i.parse::<usize>().ok()).map(|i| rs[i].clone()).collect()
        });
        if outs.iter().any(|o| o.is_none()) {
            rep.count("law_violation:sort-panic");
            rep.spec_violation(&known, "sort-panic", &format!("sort() panicked on {}", join_vals(xs)), &body);
        } else if outs.iter().any(|o| o != &outs[0]) {
            rep.count("law_violation:sort-depends-on-insertion-order");
            rep.spec_violation(
                &known,
                "sort-depends-on-insertion-order",
                &format!("sort() of the same multiset gave different sequences for different input orders: {}", join_vals(xs)),
                &body,
            );
        } else if outs[0] != model_sorted {
            rep.count("model_mismatch_sort");
            if first_break.is_none() {
                first_break = Some(format!("{}\nimpl-sorted  {:?}\nmodel-sorted {:?}", body, outs[0], model_sorted));
            }
        }
        // (b) the B-tree index: every value must be found again, whatever the insertion order
        let mut miss = None;
        let mut merged: Option<String> = None;
        let mut range_bad = None;
        for t in 0..3 {
            let mut order: Vec<usize> = (0..xs.len()).collect();
            if t > 0 {
                shuffle(&mut rng, &mut order);
            }
            let mut index = PropertyIndex::new();
            for i in &order {
                index.insert(pvs[*i].clone(), NodeId::new(*i as u64));
            }
            for i in 0..xs.len() {
                let mut got: Vec<u64> = index.get(&pvs[i]).iter().map(|n| n.as_u64()).collect();
                got.sort();
                let want: Vec<u64> = (0..xs.len()).filter(|j| rs[*j] == rs[i]).map(|j| j as u64).collect();
                if got != want && want.iter().all(|w| got.contains(w)) && merged.is_none() {
                    let extra: Vec<String> = got.iter().filter(|g| !want.contains(g)).map(|g| rs[*g as usize].clone()).collect();
                    merged = Some(format!("get({}) = {:?} also returns the nodes holding {:?} (insertion order {:?})", rs[i], got, extra, order));
                } else if got != want && miss.is_none() {
                    miss = Some(format!("get({}) = {:?}, inserted under ids {:?} (insertion order {:?})", rs[i], got, want, order));
                }
                if index.count(&pvs[i]) != want.len() && miss.is_none() {
                    miss = Some(format!("count({}) = {}, expected {}", rs[i], index.count(&pvs[i]), want.len()));
                }
            }
            for (q, (a, b)) in range_q[x].iter().enumerate() {
                let reply = &replies[base + 1 + q];
                let want: Vec<u64> = match reply.strip_prefix("ok ") {
                    Some("-") => vec![],
                    Some(t) => t.split(',').filter_map(|i| i.parse().ok()).collect(),
                    None => continue,
                };
                if pvs[*a].cmp(&pvs[*b]) == Ordering::Greater {
                    continue; // BTreeMap::range panics on an inverted range by contract
                }
                let r = catch_unwind(AssertUnwindSafe(|| {
                    let mut got: Vec<u64> = index
                        .range((Bound::Included(pvs[*a].clone()), Bound::Included(pvs[*b].clone())))
                        .iter()
                        .map(|n| n.as_u64())
                        .collect();
                    got.sort();
                    got
                }));
                rep.count("index_range_queries");
                match r {
                    Ok(got) if got == want => {}
                    Ok(got) => {
                        if range_bad.is_none() {
                            range_bad = Some(format!("range({}..={}) = {:?}, model {:?}", rs[*a], rs[*b], got, want));
                        }
                    }
                    Err(_) => {
                        if range_bad.is_none() {
                            range_bad = Some(format!("range({}..={}) panicked", rs[*a], rs[*b]));
                        }
                    }
                }
            }
        }
        if let Some(w) = merged {
            rep.count("law_violation:index-key-merge");
            rep.spec_violation(&known, "index-key-merge", &format!("PropertyIndex folds two different values into one key: {}", w), &body);
        } else if let Some(w) = miss {
            rep.count("law_violation:index-lookup-miss");
            rep.spec_violation(&known, "index-lookup-miss", &format!("PropertyIndex lost a value: {}", w), &body);
        } else if let Some(w) = range_bad {
            rep.count("model_mismatch_index_range");
            if first_break.is_none() {
                first_break = Some(format!("{}\n{}", body, w));
            }
        }
    }

    let t_sort = t_start.elapsed().as_secs_f64() - t_sets;
    // ---------------- 3. the conversion `i64 as f64` against the model's F64.cast ----------------
    if args.replay.is_none() {
        let mut ints: Vec<i64> = vec![0, 1, -1, i64::MAX, i64::MIN, i64::MAX - 1, i64::MIN + 1];
        for e in 52..=63u32 {
            let base: i128 = 1i128 << e;
            for d in -3i128..=3 {
                for half in [0i128, (1i128 << (e.saturating_sub(53))), (1i128 << (e.saturating_sub(52)))] {
                    for sgn in [1i128, -1] {
                        let v = sgn * (base + half + d);
                        if v >= i64::MIN as i128 && v <= i64::MAX as i128 {
                            ints.push(v as i64);
                        }
                    }
                }
            }
        }
        let n_rand = if args.thorough() { 400_000 } else { 40_000 };
        for _ in 0..n_rand {
            let r = rng.next_u64() as i64;
            ints.push(match rng.below(4) {
                0 => r,
                1 => r >> rng.below(12),                       // around 2^52 .. 2^63
                2 => (r >> rng.below(12)) | 1,                 // odd: never exactly representable above 2^53
                _ => ((r >> 10) << 10) + (1 << 9) + rng.range(-1, 1), // next to a rounding tie
            });
        }
        let mut mism = 0u64;
        let chunks: Vec<&[i64]> = ints.chunks(500).collect();
        let lines: Vec<String> =
            chunks.iter().map(|c| format!("cast {}", c.iter().map(|i| i.to_string()).collect::<Vec<_>>().join(","))).collect();
        let rp = driver::par_batch(&exe, &lines, 8);
        for (chunk, reply) in chunks.iter().zip(rp.iter()) {
            let got: Vec<&str> = reply.strip_prefix("ok ").unwrap_or("").split(',').collect();
            if got.len() != chunk.len() {
                mism += 1;
                if first_break.is_none() {
                    first_break = Some(format!("cast request of {} integers answered with {} results: {}", chunk.len(), got.len(), reply));
                }
            }
            for (i, g) in chunk.iter().zip(got.iter()) {
                rep.count("cast_checked");
                let want = format!("{:016x}", (*i as f64).to_bits());
                if *g != want {
                    mism += 1;
                    if first_break.is_none() {
                        first_break = Some(format!("cast {}\nimpl  {}\nmodel {}", i, want, g));
                    }
                }
            }
        }
        rep.count_n("cast_mismatch", mism);
    }

    if std::env::var("C10_TIMING").is_ok() {
        eprintln!("sections: sets {:.1}s, sort/index {:.1}s, cast {:.1}s", t_sets, t_sort, t_start.elapsed().as_secs_f64() - t_sets - t_sort);
    }
    if let Some(body) = first_break {
        if rep.spec_violations.is_empty() {
            rep.correspondence_break(
                "SgModel.PV.{cmp,beq,hashKey,cypherOrder} = PropertyValue::{cmp,eq,hash}, cypher_order, sort(), PropertyIndex",
                "model and implementation observations differ but every law holds on all explored cases",
                &body,
            );
        }
    }
    rep.write(&args.out);
}
