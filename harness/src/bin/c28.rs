//! C28 — hierarchy index answers equal the brute-force poset answers.
//!
//! Three kinds of cases, all evaluated three ways (implementation R, Lean model M, Lean
//! specification S on R):
//!   api : `OehIndex` built from a poset (auto / forced encodings), subsumption, descendants,
//!         LCA, roll-ups before and after `update_measure` sequences;
//!   mgr : Cypher histories (edge writes, measure writes, CREATE/REBUILD/DROP HIERARCHY INDEX,
//!         `*0..` queries) run on a store with the index and on a twin store without it;
//!   cy  : hand-written Cypher scripts (corpus only) for value domains the model does not
//!         cover (floats, labelled measures, non-numeric measures): S only.
use samyama::graph::{GraphStore, Label, NodeId, PropertyValue};
use samyama::index::hierarchy::{Encoding, HierarchyError, OehIndex, Poset, RollupOp, RollupValue};
use samyama::query::executor::record::Value;
use samyama::query::QueryEngine;
use serde_json::json;
use std::collections::{BTreeSet, HashMap};
use vharness::{driver, Args, Known, Report, Rng};

// ---------------------------------------------------------------------------------------------
// api cases
// ---------------------------------------------------------------------------------------------

#[derive(Clone, Debug)]
enum Step {
    Upd(u32, Option<i64>),
    Q,
}

#[derive(Clone, Debug)]
struct ApiCase {
    n: usize,
    edges: Vec<(u32, u32)>, // (child, parent), dense indices == interning order
    enc: String,
    meas: Vec<Option<i64>>,
    steps: Vec<Step>,
    ys: Option<Vec<u32>>,           // None = all
    pairs: Option<Vec<(u32, u32)>>, // None = all
    family: &'static str,
}

fn opt(v: &Option<i64>) -> String {
    match v {
        Some(x) => x.to_string(),
        None => "_".into(),
    }
}

impl ApiCase {
    fn ys(&self) -> Vec<u32> {
        self.ys.clone().unwrap_or_else(|| (0..self.n as u32).collect())
    }
    fn pairs(&self) -> Vec<(u32, u32)> {
        self.pairs.clone().unwrap_or_else(|| {
            let mut v = vec![];
            for x in 0..self.n as u32 {
                for y in 0..self.n as u32 {
                    v.push((x, y));
                }
            }
            v
        })
    }
    fn render_common(&self, with_enc: bool) -> String {
        let es = if self.edges.is_empty() {
            "-".to_string()
        } else {
            self.edges.iter().map(|(c, p)| format!("{}-{}", c, p)).collect::<Vec<_>>().join(",")
        };
        let meas = self.meas.iter().map(opt).collect::<Vec<_>>().join(",");
        let steps = if self.steps.is_empty() {
            "-".to_string()
        } else {
            self.steps
                .iter()
                .map(|s| match s {
                    Step::Upd(u, v) => format!("u{}={}", u, opt(v)),
                    Step::Q => "q".into(),
                })
                .collect::<Vec<_>>()
                .join(";")
        };
        let ys = match &self.ys {
            None => "all".to_string(),
            Some(v) if v.is_empty() => "-".into(),
            Some(v) => v.iter().map(|y| y.to_string()).collect::<Vec<_>>().join("."),
        };
        let pairs = match &self.pairs {
            None => "all".to_string(),
            Some(v) if v.is_empty() => "-".into(),
            Some(v) => v.iter().map(|(x, y)| format!("{}-{}", x, y)).collect::<Vec<_>>().join("."),
        };
        if with_enc {
            format!("{} {} {} {} {} {} {}", self.n, es, self.enc, meas, steps, ys, pairs)
        } else {
            format!("{} {} {} {} {} {}", self.n, es, meas, steps, ys, pairs)
        }
    }
    fn render(&self) -> String {
        self.render_common(true)
    }
    fn parse(s: &str) -> Option<ApiCase> {
        let t: Vec<&str> = s.split_whitespace().collect();
        if t.len() != 7 {
            return None;
        }
        let n: usize = t[0].parse().ok()?;
        let edges = if t[1] == "-" {
            vec![]
        } else {
            t[1].split(',')
                .map(|e| {
                    let (c, p) = e.split_once('-')?;
                    Some((c.parse().ok()?, p.parse().ok()?))
                })
                .collect::<Option<Vec<_>>>()?
        };
        let po = |x: &str| -> Option<Option<i64>> {
            if x == "_" {
                Some(None)
            } else {
                Some(Some(x.parse().ok()?))
            }
        };
        let meas = t[3].split(',').map(po).collect::<Option<Vec<_>>>()?;
        let steps = if t[4] == "-" {
            vec![]
        } else {
            t[4].split(';')
                .map(|s| {
                    if s == "q" {
                        Some(Step::Q)
                    } else {
                        let (a, v) = s.strip_prefix('u')?.split_once('=')?;
                        Some(Step::Upd(a.parse().ok()?, po(v)?))
                    }
                })
                .collect::<Option<Vec<_>>>()?
        };
        let ys = match t[5] {
            "all" => None,
            "-" => Some(vec![]),
            l => Some(l.split('.').map(|y| y.parse().ok()).collect::<Option<Vec<_>>>()?),
        };
        let pairs = match t[6] {
            "all" => None,
            "-" => Some(vec![]),
            l => Some(
                l.split('.')
                    .map(|e| {
                        let (x, y) = e.split_once('-')?;
                        Some((x.parse().ok()?, y.parse().ok()?))
                    })
                    .collect::<Option<Vec<_>>>()?,
            ),
        };
        Some(ApiCase { n, edges, enc: t[2].to_string(), meas, steps, ys, pairs, family: "corpus" })
    }
    /// Appendix B: a node with >= 2 parents (DAG encodings) or depth >= 3 (tree), and at
    /// least one measure update precedes a roll-up checkpoint
    fn nontrivial(&self) -> bool {
        let mut seen_upd = false;
        let mut upd_before_q = false;
        for s in &self.steps {
            match s {
                Step::Upd(..) => seen_upd = true,
                Step::Q => upd_before_q |= seen_upd,
            }
        }
        if !upd_before_q {
            return false;
        }
        let mut np = vec![0usize; self.n];
        for (c, _) in &self.edges {
            np[*c as usize] += 1;
        }
        if np.iter().any(|&k| k >= 2) {
            return true;
        }
        depth(self.n, &self.edges) >= 3
    }
}

fn depth(n: usize, edges: &[(u32, u32)]) -> usize {
    // longest chain (in edges) by relaxation; graphs are small or shallow enough
    let mut d = vec![0usize; n];
    let mut changed = true;
    let mut rounds = 0;
    while changed && rounds <= n {
        changed = false;
        rounds += 1;
        for (c, p) in edges {
            if d[*c as usize] < d[*p as usize] + 1 {
                d[*c as usize] = d[*p as usize] + 1;
                changed = true;
            }
        }
    }
    d.into_iter().max().unwrap_or(0)
}

/// relabel so that dense index (interning order of `Poset::from_edges`) == node number:
/// isolated nodes first (they are passed as `extra_nodes`), then child, parent per edge
fn relabel(n: usize, edges: &[(u32, u32)]) -> Vec<(u32, u32)> {
    let mut touched = vec![false; n];
    for (c, p) in edges {
        touched[*c as usize] = true;
        touched[*p as usize] = true;
    }
    let mut map: Vec<Option<u32>> = vec![None; n];
    let mut next = 0u32;
    for i in 0..n {
        if !touched[i] {
            map[i] = Some(next);
            next += 1;
        }
    }
    for (c, p) in edges {
        for v in [*c, *p] {
            if map[v as usize].is_none() {
                map[v as usize] = Some(next);
                next += 1;
            }
        }
    }
    edges.iter().map(|(c, p)| (map[*c as usize].unwrap(), map[*p as usize].unwrap())).collect()
}

fn show_rv(v: Option<RollupValue>) -> String {
    match v {
        Some(RollupValue::Int(i)) => i.to_string(),
        Some(RollupValue::Null) => "N".into(),
        Some(RollupValue::Float(f)) => format!("F{:016x}", f.to_bits()),
        None => "?".into(),
    }
}

fn show_nats(l: &[u32]) -> String {
    if l.is_empty() {
        "_".into()
    } else {
        l.iter().map(|x| x.to_string()).collect::<Vec<_>>().join(".")
    }
}

fn or_dash(s: String) -> String {
    if s.is_empty() {
        "-".into()
    } else {
        s
    }
}

fn run_api_real(c: &ApiCase) -> String {
    let r = std::panic::catch_unwind(|| {
        let mut touched = vec![false; c.n];
        for (a, b) in &c.edges {
            touched[*a as usize] = true;
            touched[*b as usize] = true;
        }
        let isolated: Vec<NodeId> = (0..c.n).filter(|i| !touched[*i]).map(|i| NodeId(i as u64)).collect();
        let poset = match Poset::from_edges(
            c.edges.iter().map(|(a, b)| (NodeId(*a as u64), NodeId(*b as u64))),
            isolated,
        ) {
            Ok(p) => p,
            Err(e) => return format!("error poset:{:?}", e),
        };
        for i in 0..c.n {
            if poset.idx(NodeId(i as u64)) != Some(i as u32) {
                return "error relabel".to_string();
            }
        }
        let built = match c.enc.as_str() {
            "auto" => OehIndex::build(poset),
            "nested" => OehIndex::build_forced(poset, Encoding::NestedSet),
            "chain" => OehIndex::build_forced(poset, Encoding::Chain),
            "near" => OehIndex::build_forced(poset, Encoding::NearTree),
            other => return format!("error enc:{}", other),
        };
        let mut idx = match built {
            Ok(i) => i,
            Err(HierarchyError::WidthTooHigh { width, cap, .. }) => {
                return format!("declined {}:{} 0 - - - -", width, cap)
            }
            Err(HierarchyError::NotATree) => return "notatree - 0 - - - -".to_string(),
            Err(e) => return format!("error build:{:?}", e),
        };
        let meas: Vec<Option<RollupValue>> =
            c.meas.iter().map(|m| m.map(|v| RollupValue::Int(v as i128))).collect();
        idx.set_measure(meas, &[RollupOp::Sum, RollupOp::Min, RollupOp::Max, RollupOp::Count]);
        let ys = c.ys();
        let pairs = c.pairs();
        let subs: String = pairs.iter().map(|(x, y)| if idx.subsumes(*x, *y) { '1' } else { '0' }).collect();
        let desc = ys
            .iter()
            .map(|y| format!("{}:{}", y, show_nats(&idx.descendants(*y))))
            .collect::<Vec<_>>()
            .join(";");
        let lca = pairs
            .iter()
            .map(|(x, y)| show_nats(&idx.lowest_common_ancestors(*x, *y)))
            .collect::<Vec<_>>()
            .join(";");
        let mut cps = vec![];
        for s in &c.steps {
            match s {
                Step::Upd(u, v) => {
                    idx.update_measure(NodeId(*u as u64), v.map(|x| RollupValue::Int(x as i128)));
                }
                Step::Q => {
                    cps.push(
                        ys.iter()
                            .map(|y| {
                                format!(
                                    "{}:{},{},{},{}",
                                    y,
                                    show_rv(idx.rollup(*y, RollupOp::Sum)),
                                    show_rv(idx.rollup(*y, RollupOp::Count)),
                                    show_rv(idx.rollup(*y, RollupOp::Min)),
                                    show_rv(idx.rollup(*y, RollupOp::Max))
                                )
                            })
                            .collect::<Vec<_>>()
                            .join(";"),
                    );
                }
            }
        }
        let w = idx.width().map(|w| w.to_string()).unwrap_or_else(|| "-".into());
        format!(
            "{} {} {} {} {} {} {}",
            idx.encoding().name(),
            w,
            idx.structural_bytes(),
            or_dash(subs),
            or_dash(desc),
            or_dash(lca),
            or_dash(cps.join("|"))
        )
    });
    match r {
        Ok(s) => s,
        Err(_) => "panic".to_string(),
    }
}

// ---- generators -------------------------------------------------------------------------------

fn rand_meas(rng: &mut Rng, n: usize) -> Vec<Option<i64>> {
    (0..n).map(|_| if rng.chance(1, 5) { None } else { Some(rng.range(-4, 12)) }).collect()
}

fn rand_steps(rng: &mut Rng, n: usize, max_upd: usize) -> Vec<Step> {
    let mut s = vec![Step::Q];
    if n == 0 {
        return s;
    }
    let rounds = 1 + rng.usize(3);
    for _ in 0..rounds {
        for _ in 0..1 + rng.usize(max_upd) {
            let v = if rng.chance(1, 5) { None } else { Some(rng.range(-6, 20)) };
            s.push(Step::Upd(rng.usize(n) as u32, v));
        }
        s.push(Step::Q);
    }
    s
}

fn is_acyclic(n: usize, edges: &[(u32, u32)]) -> bool {
    let mut indeg = vec![0; n];
    for (_, p) in edges {
        indeg[*p as usize] += 1;
    }
    let mut q: Vec<usize> = (0..n).filter(|i| indeg[*i] == 0).collect();
    let mut seen = 0;
    while let Some(u) = q.pop() {
        seen += 1;
        for (c, p) in edges {
            if *c as usize == u {
                indeg[*p as usize] -= 1;
                if indeg[*p as usize] == 0 {
                    q.push(*p as usize);
                }
            }
        }
    }
    seen == n
}

fn is_tree(n: usize, edges: &[(u32, u32)]) -> bool {
    let mut np = vec![0; n];
    for (c, _) in edges {
        np[*c as usize] += 1;
    }
    np.iter().all(|&k| k <= 1)
}

/// every labelled DAG on `n` nodes (as edge sets over ordered pairs), relabelled
fn exhaustive_dags(n: usize) -> Vec<Vec<(u32, u32)>> {
    let mut slots = vec![];
    for c in 0..n as u32 {
        for p in 0..n as u32 {
            if c != p {
                slots.push((c, p));
            }
        }
    }
    let mut out = vec![];
    for mask in 0u32..(1u32 << slots.len()) {
        let es: Vec<(u32, u32)> =
            slots.iter().enumerate().filter(|(i, _)| mask >> i & 1 == 1).map(|(_, e)| *e).collect();
        // both directions of a pair can never be acyclic: skip early
        if !is_acyclic(n, &es) {
            continue;
        }
        out.push(relabel(n, &es));
    }
    out
}

fn shuffle<T>(rng: &mut Rng, v: &mut Vec<T>) {
    for i in (1..v.len()).rev() {
        let j = rng.usize(i + 1);
        v.swap(i, j);
    }
}

fn gen_tree(rng: &mut Rng, n: usize, deep: bool) -> Vec<(u32, u32)> {
    // node i (i >= roots) picks a parent among earlier nodes; a few roots
    let roots = 1 + rng.usize(3.min(n));
    let mut es = vec![];
    for i in roots..n {
        let p = if deep && rng.chance(3, 4) { i - 1 } else { rng.usize(i) };
        es.push((i as u32, p as u32));
    }
    shuffle(rng, &mut es);
    es
}

fn gen_near_tree(rng: &mut Rng, n: usize, extra: usize) -> Vec<(u32, u32)> {
    let mut es = gen_tree(rng, n, false);
    let mut have: BTreeSet<(u32, u32)> = es.iter().cloned().collect();
    let mut tries = 0;
    let mut added = 0;
    while added < extra && tries < 50 * (extra + 1) {
        tries += 1;
        // extra parent: child later-numbered than parent keeps it acyclic (parents are earlier)
        let c = rng.usize(n);
        if c == 0 {
            continue;
        }
        let p = rng.usize(c);
        if have.insert((c as u32, p as u32)) {
            let at = rng.usize(es.len() + 1);
            es.insert(at, (c as u32, p as u32));
            added += 1;
        }
    }
    es
}

fn gen_layered(rng: &mut Rng, layers: usize, width: usize) -> (usize, Vec<(u32, u32)>) {
    let n = layers * width;
    let id = |l: usize, i: usize| (l * width + i) as u32;
    let mut es = vec![];
    for l in 1..layers {
        for i in 0..width {
            let k = 1 + rng.usize(3.min(width));
            let mut ps = BTreeSet::new();
            ps.insert(i);
            while ps.len() < k {
                ps.insert(rng.usize(width));
            }
            for p in ps {
                // mostly the layer above, sometimes two above
                let up = if l >= 2 && rng.chance(1, 6) { l - 2 } else { l - 1 };
                es.push((id(l, i), id(up, p)));
            }
        }
    }
    es.sort();
    es.dedup();
    shuffle(rng, &mut es);
    (n, es)
}

fn gen_random_dag(rng: &mut Rng, n: usize, density_pct: u64) -> Vec<(u32, u32)> {
    let mut es = vec![];
    for c in 1..n {
        for p in 0..c {
            if rng.chance(density_pct, 100) {
                es.push((c as u32, p as u32));
            }
        }
    }
    shuffle(rng, &mut es);
    es
}

fn gen_high_width(rng: &mut Rng, leaves: usize) -> (usize, Vec<(u32, u32)>) {
    let roots = 3;
    let n = roots + leaves;
    let mut es = vec![];
    for i in 0..leaves {
        let a = rng.usize(roots);
        let b = (a + 1 + rng.usize(roots - 1)) % roots;
        es.push(((roots + i) as u32, a as u32));
        es.push(((roots + i) as u32, b as u32));
    }
    (n, es)
}

fn sample_queries(rng: &mut Rng, n: usize, ny: usize, np: usize) -> (Option<Vec<u32>>, Option<Vec<(u32, u32)>>) {
    if n <= 7 {
        return (None, None);
    }
    let mut ys: Vec<u32> = (0..ny).map(|_| rng.usize(n) as u32).collect();
    ys.sort();
    ys.dedup();
    let mut pairs = vec![];
    for _ in 0..np {
        // bias towards related pairs: reuse ys
        let y = if rng.chance(1, 2) { *rng.pick(&ys) } else { rng.usize(n) as u32 };
        pairs.push((rng.usize(n) as u32, y));
    }
    (Some(ys), Some(pairs))
}

fn mk_case(rng: &mut Rng, n: usize, es: Vec<(u32, u32)>, enc: &str, family: &'static str, ny: usize, np: usize) -> ApiCase {
    let edges = relabel(n, &es);
    let (ys, pairs) = sample_queries(rng, n, ny, np);
    ApiCase {
        n,
        edges,
        enc: enc.to_string(),
        meas: rand_meas(rng, n),
        steps: rand_steps(rng, n, 4),
        ys,
        pairs,
        family,
    }
}

// ---------------------------------------------------------------------------------------------
// mgr cases and Cypher scripts
// ---------------------------------------------------------------------------------------------

/// one statement of a script: the abstract operation (what the Lean side sees) and its Cypher
#[derive(Clone, Debug)]
struct Stmt {
    abs: String,
    cypher: String,
}

#[derive(Clone, Debug)]
struct Script {
    n: usize,
    stmts: Vec<Stmt>,
    /// true: the Lean model covers it (mrun is compared); false: S only (corpus `cy` lines)
    modelled: bool,
    tag: String,
    /// extra setup statements run on both stores before the script (cy scripts)
    setup: Vec<String>,
}

fn ty_name(ty: u32) -> String {
    format!("T{}", ty)
}

fn abs_to_cypher(abs: &str, spelling: bool) -> Option<String> {
    let edge = |t: &str| -> Option<(u32, u32, u32)> {
        let (st, ty) = t.split_once(':')?;
        let (a, b) = st.split_once('-')?;
        Some((a.parse().ok()?, b.parse().ok()?, ty.parse().ok()?))
    };
    if let Some(r) = abs.strip_prefix("e+") {
        let (a, b, ty) = edge(r)?;
        return Some(format!("MATCH (a:N {{k: {}}}), (b:N {{k: {}}}) CREATE (a)-[:{}]->(b)", a, b, ty_name(ty)));
    }
    if let Some(r) = abs.strip_prefix("e-") {
        let (a, b, ty) = edge(r)?;
        return Some(format!("MATCH (a:N {{k: {}}})-[e:{}]->(b:N {{k: {}}}) DELETE e", a, ty_name(ty), b));
    }
    if let Some(r) = abs.strip_prefix('s') {
        let (v, x) = r.split_once('=')?;
        let x = if x == "_" { "null".to_string() } else { x.to_string() };
        return Some(format!("MATCH (a:N {{k: {}}}) SET a.units = {}", v, x));
    }
    if let Some(r) = abs.strip_prefix('r') {
        return Some(format!("MATCH (a:N {{k: {}}}) REMOVE a.units", r));
    }
    if let Some(r) = abs.strip_prefix('c') {
        let (tys, rv) = r.split_once(':')?;
        let tys: Vec<String> = tys.split('.').map(|t| format!("T{}", t)).collect();
        let pat = if rv == "1" {
            format!("()<-[:{}]-()", tys.join("|"))
        } else {
            format!("()-[:{}]->()", tys.join("|"))
        };
        return Some(format!("CREATE HIERARCHY INDEX h ON {} MEASURE units AGGREGATE sum, min, max", pat));
    }
    if abs == "b" {
        return Some("REBUILD HIERARCHY INDEX h".into());
    }
    if abs == "d" {
        return Some("DROP HIERARCHY INDEX h".into());
    }
    if let Some(r) = abs.strip_prefix('q') {
        let f: Vec<&str> = r.split(':').collect();
        if f.len() != 4 {
            return None;
        }
        let ret = match f[0] {
            "D" => "d".to_string(),
            "C" => "count(d) AS v".to_string(),
            "S" => "sum(d.units) AS v".to_string(),
            "N" => "min(d.units) AS v".to_string(),
            "X" => "max(d.units) AS v".to_string(),
            _ => return None,
        };
        let ty = format!("T{}", f[1]);
        let root = f[3];
        let pat = match (f[2], spelling) {
            ("1", false) => format!("(d)-[:{}*0..]->(r:N {{k: {}}})", ty, root),
            ("1", true) => format!("(r:N {{k: {}}})<-[:{}*0..]-(d)", root, ty),
            ("0", false) => format!("(r:N {{k: {}}})-[:{}*0..]->(d)", root, ty),
            ("0", true) => format!("(d)<-[:{}*0..]-(r:N {{k: {}}})", ty, root),
            _ => return None,
        };
        return Some(format!("MATCH {} RETURN {}", pat, ret));
    }
    None
}

fn canon_value(v: Option<&Value>, ids: &HashMap<NodeId, i64>) -> String {
    match v {
        None => "?".into(),
        Some(Value::Null) => "N".into(),
        Some(Value::Node(id, _)) | Some(Value::NodeRef(id)) => {
            ids.get(id).map(|k| k.to_string()).unwrap_or_else(|| format!("id{}", id.as_u64()))
        }
        Some(Value::Property(PropertyValue::Integer(i))) => i.to_string(),
        Some(Value::Property(PropertyValue::Null)) => "N".into(),
        Some(Value::Property(PropertyValue::Float(f))) => {
            if f.fract() == 0.0 && f.abs() < 1e15 {
                format!("{}", *f as i64)
            } else {
                format!("f{}", f)
            }
        }
        Some(Value::Property(p)) => format!("p{:?}", p).replace([' ', ':', ';'], "_"),
        Some(_) => "other".into(),
    }
}

fn node_ids(store: &GraphStore) -> HashMap<NodeId, i64> {
    let mut m = HashMap::new();
    for id in store.node_ids_by_label(&Label::new("N"), None) {
        let col = store.node_columns.get_property(id.as_u64() as usize, "k");
        let k = match col {
            PropertyValue::Integer(i) => Some(i),
            _ => match store.get_node(id).and_then(|n| n.get_property("k").cloned()) {
                Some(PropertyValue::Integer(i)) => Some(i),
                _ => None,
            },
        };
        if let Some(k) = k {
            m.insert(id, k);
        }
    }
    m
}

fn query_answer(engine: &QueryEngine, store: &GraphStore, q: &str, ids: &HashMap<NodeId, i64>) -> String {
    match engine.execute(q, store) {
        Ok(b) => {
            if b.columns.len() == 1 && b.columns[0] == "d" {
                let mut rows: Vec<i64> = vec![];
                let mut odd = vec![];
                for r in &b.records {
                    let c = canon_value(r.get("d"), ids);
                    match c.parse::<i64>() {
                        Ok(k) => rows.push(k),
                        Err(_) => odd.push(c),
                    }
                }
                rows.sort();
                let mut s: Vec<String> = rows.iter().map(|k| k.to_string()).collect();
                s.extend(odd);
                if s.is_empty() {
                    "_".into()
                } else {
                    s.join(".")
                }
            } else if b.records.len() == 1 {
                canon_value(b.records[0].get(&b.columns[0]), ids)
            } else {
                format!("rows{}", b.records.len())
            }
        }
        Err(_) => "ERR".into(),
    }
}

fn uses_index(store: &GraphStore, q: &str) -> bool {
    let Ok(parsed) = samyama::query::parse_query(q) else { return false };
    let planner = samyama::query::executor::planner::QueryPlanner::new();
    match planner.plan(&parsed, store) {
        Ok(p) => p.root.describe().format(0).contains("Hierarchy"),
        Err(_) => false,
    }
}

/// run a script on the store with the index and on its twin; one observation per statement
fn run_script_real(sc: &Script) -> Vec<String> {
    let r = std::panic::catch_unwind(|| {
        let engine = QueryEngine::new();
        let mut with = GraphStore::new();
        let mut without = GraphStore::new();
        for i in 0..sc.n {
            let q = format!("CREATE (:N {{k: {}}})", i);
            engine.execute_mut(&q, &mut with, "default").expect("setup");
            engine.execute_mut(&q, &mut without, "default").expect("setup");
        }
        for q in &sc.setup {
            engine.execute_mut(q, &mut with, "default").expect("setup");
            engine.execute_mut(q, &mut without, "default").expect("setup");
        }
        let ids_w = node_ids(&with);
        let ids_wo = node_ids(&without);
        let mut obs = vec![];
        for st in &sc.stmts {
            let first = st.abs.chars().next().unwrap_or('.');
            match first {
                'q' => {
                    let used = uses_index(&with, &st.cypher);
                    let a = query_answer(&engine, &with, &st.cypher, &ids_w);
                    let b = query_answer(&engine, &without, &st.cypher, &ids_wo);
                    obs.push(format!("{}:{}:{}", if used { "I" } else { "E" }, a, b));
                }
                'c' | 'b' | 'd' => match engine.execute_mut(&st.cypher, &mut with, "default") {
                    Ok(b) => {
                        let enc = b
                            .records
                            .first()
                            .and_then(|r| r.get("encoding"))
                            .map(|v| match v {
                                Value::Property(PropertyValue::String(s)) => s.clone(),
                                _ => "?".into(),
                            })
                            .unwrap_or_else(|| "-".into());
                        obs.push(format!("ok:{}", enc));
                    }
                    Err(_) => obs.push("err".into()),
                },
                _ => {
                    let a = engine.execute_mut(&st.cypher, &mut with, "default").is_ok();
                    let b = engine.execute_mut(&st.cypher, &mut without, "default").is_ok();
                    obs.push(if a && b { ".".into() } else { "ERR".into() });
                }
            }
        }
        obs
    });
    match r {
        Ok(o) => o,
        Err(_) => vec!["panic".into()],
    }
}

fn script_abs(sc: &Script) -> String {
    sc.stmts.iter().map(|s| s.abs.clone()).collect::<Vec<_>>().join(";")
}

fn mk_mgr_script(n: usize, abs_ops: &[String], spell_bits: u64) -> Script {
    let stmts = abs_ops
        .iter()
        .enumerate()
        .map(|(i, a)| Stmt { abs: a.clone(), cypher: abs_to_cypher(a, spell_bits >> (i % 60) & 1 == 1).expect("abstract op") })
        .collect();
    Script { n, stmts, modelled: true, tag: String::new(), setup: vec![] }
}

/// near-tree stress (in the spirit of seeded change C28-a): exception children nested inside one
/// another's forest subtrees (a backbone path carries several of them), exception parents that
/// hang below other exception children (multi-hop chains through `via_exception`), and shared
/// exception parents (the threaded `seen` list prunes)
fn gen_nested_exceptions(rng: &mut Rng, n: usize) -> Vec<(u32, u32)> {
    let k = (n / 3).max(2); // backbone 0 <- 1 <- ... <- k
    let mut tree: Vec<(u32, u32)> = vec![];
    for j in 1..=k.min(n - 1) {
        tree.push((j as u32, (j - 1) as u32));
    }
    for i in (k + 1)..n {
        tree.push((i as u32, rng.usize(i) as u32));
    }
    let mut have: BTreeSet<(u32, u32)> = tree.iter().cloned().collect();
    let mut extra: Vec<(u32, u32)> = vec![];
    let m = 2 + rng.usize(n / 3 + 1);
    let mut shared: Vec<u32> = vec![];
    for t in 0..m {
        // half of the exception children sit on the backbone (nested subtrees)
        let c = if t % 2 == 0 { 1 + rng.usize(k.min(n - 1)) } else { 1 + rng.usize(n - 1) };
        let np = 1 + rng.usize(2);
        for _ in 0..np {
            let p = if !shared.is_empty() && rng.chance(1, 3) {
                *rng.pick(&shared) as usize
            } else {
                rng.usize(c)
            };
            if p < c && have.insert((c as u32, p as u32)) {
                extra.push((c as u32, p as u32));
                shared.push(p as u32);
            }
        }
    }
    let mut es = tree;
    if rng.chance(1, 2) {
        es.extend(extra);
    } else {
        // interleave: which parent is "first" (the spanning-forest parent) changes
        for e in extra {
            let at = rng.usize(es.len() + 1);
            es.insert(at, e);
        }
    }
    es
}

/// REBUILD stress (in the spirit of seeded change C28-b): member- and count-preserving rewires
/// (re-parenting, parent swaps) between rebuilds, with measure writes on the nodes that move
fn gen_mgr_rewire(rng: &mut Rng) -> Script {
    let n = 5 + rng.usize(6);
    let mut ops: Vec<String> = vec![];
    let mut parent: Vec<usize> = vec![0; n];
    for c in 1..n {
        let p = rng.usize(c);
        parent[c] = p;
        ops.push(format!("e+{}-{}:0", c, p));
    }
    for v in 0..n {
        ops.push(format!("s{}={}", v, rng.range(0, 9)));
    }
    ops.push("c0:0".into());
    ops.push(format!("qS:0:1:{}", rng.usize(n)));
    let rounds = 2 + rng.usize(4);
    for _ in 0..rounds {
        let mut touched: Vec<usize> = vec![];
        if rng.chance(1, 3) && n >= 5 {
            // swap the parents of two nodes (keeps members and edge count)
            let c1 = 2 + rng.usize(n - 2);
            let c2 = 2 + rng.usize(n - 2);
            let (p1, p2) = (parent[c1], parent[c2]);
            if c1 != c2 && p1 != p2 && p2 < c1 && p1 < c2 {
                ops.push(format!("s{}={}", c1, rng.range(-3, 15)));
                ops.push(format!("e-{}-{}:0", c1, p1));
                ops.push(format!("e-{}-{}:0", c2, p2));
                ops.push(format!("e+{}-{}:0", c1, p2));
                ops.push(format!("e+{}-{}:0", c2, p1));
                parent[c1] = p2;
                parent[c2] = p1;
                touched.extend([c1, c2, p1, p2]);
            }
        }
        if touched.is_empty() {
            let c = 2 + rng.usize(n - 2);
            let p = parent[c];
            let mut q = rng.usize(c);
            if q == p {
                q = (q + 1) % c;
            }
            if q != p {
                ops.push(format!("s{}={}", c, rng.range(-3, 15)));
                ops.push(format!("e-{}-{}:0", c, p));
                ops.push(format!("e+{}-{}:0", c, q));
                parent[c] = q;
                touched.extend([c, p, q]);
            }
        }
        if rng.chance(1, 2) {
            // before the rebuild the plan must be the expansion
            if let Some(t) = touched.first() {
                ops.push(format!("qS:0:1:{}", parent[*t]));
            }
        }
        if rng.chance(1, 3) {
            if let Some(t) = touched.first() {
                ops.push(format!("s{}={}", t, rng.range(-3, 15)));
            }
        }
        ops.push("b".into());
        touched.push(0);
        for t in touched {
            let kind = *rng.pick(&["S", "D", "C", "X", "N"]);
            ops.push(format!("q{}:0:1:{}", kind, t));
        }
    }
    mk_mgr_script(n, &ops, rng.next_u64())
}

fn gen_mgr(rng: &mut Rng) -> Script {
    let n = 3 + rng.usize(7);
    let mut ops: Vec<String> = vec![];
    let mut edges: Vec<(usize, usize, u32)> = vec![];
    // initial graph: mostly a DAG of covering type 0, some of type 1
    let shape = rng.usize(4);
    for c in 1..n {
        let k = match shape {
            0 => 1,
            1 => 1 + rng.usize(2),
            _ => rng.usize(3),
        };
        for _ in 0..k {
            let p = rng.usize(c);
            let ty = if rng.chance(1, 5) { 1 } else { 0 };
            ops.push(format!("e+{}-{}:{}", c, p, ty));
            edges.push((c, p, ty));
        }
    }
    for v in 0..n {
        if rng.chance(4, 5) {
            ops.push(format!("s{}={}", v, rng.range(-3, 9)));
        }
    }
    let types = if rng.chance(1, 6) { "0.1" } else if rng.chance(1, 10) { "1" } else { "0" };
    let rev = if rng.chance(1, 5) { 1 } else { 0 };
    ops.push(format!("c{}:{}", types, rev));
    let len = 6 + rng.usize(12);
    for _ in 0..len {
        let r = rng.usize(100);
        if r < 45 {
            let kind = *rng.pick(&["D", "C", "S", "N", "X"]);
            let ty = if rng.chance(1, 8) { 1 } else { 0 };
            // mostly the orientation the index can answer
            let pt = if rev == 1 { if rng.chance(4, 5) { 0 } else { 1 } } else if rng.chance(4, 5) { 1 } else { 0 };
            ops.push(format!("q{}:{}:{}:{}", kind, ty, pt, rng.usize(n)));
        } else if r < 65 {
            let v = rng.usize(n);
            if rng.chance(1, 4) {
                ops.push(format!("r{}", v));
            } else if rng.chance(1, 6) {
                ops.push(format!("s{}=_", v));
            } else {
                ops.push(format!("s{}={}", v, rng.range(-5, 15)));
            }
        } else if r < 78 {
            // add an edge: usually downward (acyclic), sometimes arbitrary (may close a cycle)
            let (a, b) = if rng.chance(5, 6) {
                let a = 1 + rng.usize(n - 1);
                (a, rng.usize(a))
            } else {
                (rng.usize(n), rng.usize(n))
            };
            let ty = if rng.chance(1, 4) { 1 } else { 0 };
            ops.push(format!("e+{}-{}:{}", a, b, ty));
            edges.push((a, b, ty));
        } else if r < 88 {
            if !edges.is_empty() {
                let i = rng.usize(edges.len());
                let (a, b, ty) = edges[i];
                edges.retain(|e| *e != (a, b, ty));
                ops.push(format!("e-{}-{}:{}", a, b, ty));
            }
        } else if r < 96 {
            ops.push("b".into());
        } else if r < 98 {
            ops.push("d".into());
            ops.push(format!("c{}:{}", types, rev));
        } else {
            ops.push(format!("c{}:{}", types, rev)); // duplicate create -> error
        }
    }
    // always end with a query of each flavour on the index-friendly orientation
    let pt = if rev == 1 { 0 } else { 1 };
    ops.push(format!("qS:0:{}:{}", pt, rng.usize(n)));
    ops.push(format!("qD:0:{}:{}", pt, rng.usize(n)));
    mk_mgr_script(n, &ops, rng.next_u64())
}

fn mgr_nontrivial(sc: &Script, obs: &[String]) -> bool {
    // a query answered from the index after a measure write since the last build, or a query
    // after a covering-edge write; and the covering graph is not flat (>= 2 parents or depth >= 3)
    let mut es: Vec<(u32, u32)> = vec![];
    let mut meas_write = false;
    let mut cover_write = false;
    let mut built = false;
    let mut hit = false;
    for (st, o) in sc.stmts.iter().zip(obs.iter()) {
        let a = st.abs.as_str();
        if a.starts_with("e+") || a.starts_with("e-") {
            if built {
                cover_write = true;
            }
            if let Some((st, _)) = a[2..].split_once(':') {
                if let Some((x, y)) = st.split_once('-') {
                    if a.starts_with("e+") {
                        es.push((x.parse().unwrap_or(0), y.parse().unwrap_or(0)));
                    }
                }
            }
        } else if a.starts_with('s') || a.starts_with('r') {
            if built {
                meas_write = true;
            }
        } else if (a.starts_with('c') || a == "b") && o.starts_with("ok") {
            built = true;
            meas_write = false;
            cover_write = false;
        } else if a.starts_with('q') && ((o.starts_with("I:") && meas_write) || cover_write) {
            hit = true;
        }
    }
    if !hit {
        return false;
    }
    let mut np: HashMap<u32, usize> = HashMap::new();
    for (c, _) in &es {
        *np.entry(*c).or_insert(0) += 1;
    }
    np.values().any(|&k| k >= 2) || depth(sc.n, &es.iter().filter(|(c, p)| c != p && (*c as usize) < sc.n && (*p as usize) < sc.n && c > p).cloned().collect::<Vec<_>>()) >= 3
}

/// structural class of a failing script (known-findings key)
fn mgr_signature(sc: &Script, viol: &str) -> String {
    if !sc.tag.is_empty() {
        return sc.tag.clone();
    }
    let k: usize = viol.split_whitespace().nth(1).and_then(|x| x.parse().ok()).unwrap_or(0);
    if viol.contains("stale-index-used") {
        return "stale-index-used".into();
    }
    // declaration in force at statement k
    let mut spec = String::new();
    let mut removed = false;
    for st in sc.stmts.iter().take(k) {
        if st.abs.starts_with('c') {
            spec = st.abs.clone();
            removed = false;
        } else if st.abs == "b" {
            removed = false;
        } else if st.abs.starts_with('r') {
            removed = true;
        }
    }
    let kind = sc.stmts.get(k).map(|s| s.abs.chars().nth(1).unwrap_or('?')).unwrap_or('?');
    if spec.contains('.') {
        "multi-type-index".into()
    } else if spec.ends_with(":1") {
        "reversed-index".into()
    } else if removed && kind != 'D' && kind != 'C' {
        "remove-measure".into()
    } else {
        format!("rewrite-differs:{}", kind)
    }
}

// ---------------------------------------------------------------------------------------------

enum Item {
    Api(ApiCase),
    Scr(Script),
}

fn parse_cy_line(rest: &str) -> Option<Script> {
    // cy <tag> <n> <setup stmt || setup stmt> ;; <abs> ¦ <cypher> ;; <abs> ¦ <cypher> …
    let (head, body) = rest.split_once(";;")?;
    let mut h = head.trim().splitn(3, ' ');
    let tag = h.next()?.to_string();
    let n: usize = h.next()?.parse().ok()?;
    let setup: Vec<String> =
        h.next().unwrap_or("").split("||").map(|s| s.trim().to_string()).filter(|s| !s.is_empty()).collect();
    let mut stmts = vec![];
    for part in body.split(";;") {
        let (a, c) = part.split_once('¦')?;
        stmts.push(Stmt { abs: a.trim().to_string(), cypher: c.trim().to_string() });
    }
    Some(Script { n, stmts, modelled: false, tag, setup })
}

fn load_items(files: &[std::path::PathBuf]) -> Vec<Item> {
    let mut items = vec![];
    for f in files {
        for line in std::fs::read_to_string(f).unwrap_or_default().lines() {
            let line = line.trim();
            if line.is_empty() || line.starts_with('#') {
                continue;
            }
            if let Some(r) = line.strip_prefix("api ") {
                if let Some(c) = ApiCase::parse(r) {
                    items.push(Item::Api(c));
                } else {
                    panic!("unparsable corpus line: {}", line);
                }
            } else if let Some(r) = line.strip_prefix("mgr ") {
                let mut t = r.split_whitespace();
                let n: usize = t.next().and_then(|x| x.parse().ok()).expect("mgr n");
                let ops: Vec<String> = t.next().expect("mgr ops").split(';').map(|s| s.to_string()).collect();
                items.push(Item::Scr(mk_mgr_script(n, &ops, 0)));
            } else if let Some(r) = line.strip_prefix("cy ") {
                items.push(Item::Scr(parse_cy_line(r).unwrap_or_else(|| panic!("unparsable cy line: {}", line))));
            }
        }
    }
    items
}

fn par_map<T: Sync, R: Send>(items: &[T], threads: usize, f: impl Fn(&T) -> R + Sync) -> Vec<R> {
    if items.len() < 64 {
        return items.iter().map(|x| f(x)).collect();
    }
    let chunk = (items.len() + threads - 1) / threads;
    let mut out: Vec<Vec<R>> = vec![];
    std::thread::scope(|sc| {
        let hs: Vec<_> = items.chunks(chunk).map(|c| sc.spawn(|| c.iter().map(|x| f(x)).collect::<Vec<R>>())).collect();
        for h in hs {
            out.push(h.join().expect("worker"));
        }
    });
    out.into_iter().flatten().collect()
}

fn main() {
    let args = Args::parse();
    let known = Known::load(&args.known, "C28");
    let mut rep = Report::new(
        "C28",
        "api: posets (all labelled DAGs on <= 5 nodes; random trees, near-trees, layered low-width DAGs, random DAGs, \
         high-width declines) x encodings (auto + forced) with measure-update sequences and roll-up checkpoints; \
         mgr: Cypher histories of covering/non-covering edge writes, SET/REMOVE of the measure, CREATE/REBUILD/DROP \
         HIERARCHY INDEX and `*0..` queries on a store with the index and its twin without. \
         non-trivial (api) = some node has >= 2 parents or the depth is >= 3, and >= 1 update_measure precedes a roll-up; \
         non-trivial (mgr) = same shape condition and a query is answered from the index after a measure write, or a query follows a covering-edge write; \
         distinct = distinct rendered case",
        &args.replays,
        args.seed,
    );
    let exe = args.driver_exe("drv_oeh");
    let thorough = args.thorough();
    // `Rng::new(s)` and `Rng::new(s + 1)` are the same SplitMix stream one step apart, and
    // variable-length case generators re-synchronise on it; fork to an unrelated position.
    let mut rng = Rng::new(args.seed).fork();

    // 1. corpus / replay
    let mut files: Vec<std::path::PathBuf> = vec![];
    if let Some(r) = &args.replay {
        files.push(r.clone());
    } else if let Ok(rd) = std::fs::read_dir(args.corpus.join("C28")) {
        files = rd.filter_map(|e| e.ok().map(|e| e.path())).collect();
        files.sort();
    }
    let items = load_items(&files);
    let mut apis: Vec<ApiCase> = vec![];
    let mut scripts: Vec<Script> = vec![];
    for it in items {
        match it {
            Item::Api(c) => apis.push(c),
            Item::Scr(s) => scripts.push(s),
        }
    }
    rep.count_n("corpus_api", apis.len() as u64);
    rep.count_n("corpus_scripts", scripts.len() as u64);

    if args.replay.is_none() {
        // 2. exhaustive: all labelled DAGs on <= 5 nodes
        let mut n_dags = 0u64;
        for n in 1..=5usize {
            let dags = exhaustive_dags(n);
            n_dags += dags.len() as u64;
            for (k, es) in dags.into_iter().enumerate() {
                let tree = is_tree(n, &es);
                let mut encs: Vec<&str> = vec!["auto"];
                if n <= 4 || thorough {
                    encs.extend(["chain", "near"]);
                    if tree || k % 7 == 0 {
                        encs.push("nested"); // on a non-tree: NotATree
                    }
                } else {
                    encs.push(match k % 3 {
                        0 => "chain",
                        1 => "near",
                        _ => {
                            if tree {
                                "nested"
                            } else {
                                "chain"
                            }
                        }
                    });
                }
                let meas = rand_meas(&mut rng, n);
                let steps = rand_steps(&mut rng, n, 3);
                for enc in encs {
                    apis.push(ApiCase {
                        n,
                        edges: es.clone(),
                        enc: enc.to_string(),
                        meas: meas.clone(),
                        steps: steps.clone(),
                        ys: None,
                        pairs: None,
                        family: "exhaustive",
                    });
                }
            }
        }
        rep.exhaustive = true;
        rep.exhaustive_note = format!(
            "every labelled DAG on 1..5 nodes ({} posets, each relabelled to its interning order): encoding auto plus {} (all ordered pairs, all roots); \
             measures and update sequences on them are PRNG-drawn; larger posets and Cypher histories are PRNG-drawn (not exhaustive)",
            n_dags,
            if thorough { "every forced encoding" } else { "every forced encoding for n <= 4 and one forced encoding per poset for n = 5" }
        );

        // 3. random posets
        let scale = if thorough { 10 } else { 1 };
        for _ in 0..400 * scale {
            let n = 6 + rng.usize(25);
            let fam = rng.usize(5);
            let (n, es, family): (usize, Vec<(u32, u32)>, &'static str) = match fam {
                0 => {
                    let deep = rng.chance(1, 2);
                    (n, gen_tree(&mut rng, n, deep), "tree")
                }
                1 => {
                    let extra = 1 + rng.usize(3);
                    (n, gen_near_tree(&mut rng, n, extra), "near-tree")
                }
                2 => {
                    let w = 2 + rng.usize(4);
                    let l = 2 + rng.usize(6);
                    let (n, es) = gen_layered(&mut rng, l, w);
                    (n, es, "layered")
                }
                3 => {
                    let d = 10 + rng.below(40);
                    (n.min(14), gen_random_dag(&mut rng, n.min(14), d), "random-dag")
                }
                _ => (n, gen_near_tree(&mut rng, n, n / 20), "near-tree-in-cap"),
            };
            let enc = match rng.usize(6) {
                0 => "chain",
                1 => "near",
                2 => {
                    if is_tree(n, &es) {
                        "nested"
                    } else {
                        "auto"
                    }
                }
                _ => "auto",
            };
            apis.push(mk_case(&mut rng, n, es, enc, family, 8, 40));
        }
        for _ in 0..30 * scale {
            // large: trees / near-trees to 300 nodes, layered DAGs to ~150
            let fam = rng.usize(4);
            let (n, es, family): (usize, Vec<(u32, u32)>, &'static str) = match fam {
                0 => {
                    let n = 100 + rng.usize(200);
                    let deep = rng.chance(1, 2);
                    (n, gen_tree(&mut rng, n, deep), "big-tree")
                }
                1 => {
                    let n = 100 + rng.usize(200);
                    let extra = 1 + rng.usize(n / 20);
                    (n, gen_near_tree(&mut rng, n, extra), "big-near-tree")
                }
                2 => {
                    let w = 2 + rng.usize(5);
                    let l = 8 + rng.usize(18);
                    let (n, es) = gen_layered(&mut rng, l, w);
                    (n, es, "big-layered")
                }
                _ => {
                    let lv = 110 + rng.usize(80);
                    let (n, es) = gen_high_width(&mut rng, lv);
                    (n, es, "high-width")
                }
            };
            apis.push(mk_case(&mut rng, n, es, "auto", family, 6, 24));
        }
        // nested exception children / multi-hop exception chains, forced near-tree (+ auto, chain)
        for _ in 0..40 * scale {
            let n = 8 + rng.usize(40);
            let es = gen_nested_exceptions(&mut rng, n);
            let edges = relabel(n, &es);
            let meas = rand_meas(&mut rng, n);
            let steps = rand_steps(&mut rng, n, 3);
            let (ys, pairs) = if n <= 20 {
                (None, None)
            } else {
                let ys: Vec<u32> = (0..10).map(|_| rng.usize(n) as u32).collect();
                let pairs: Vec<(u32, u32)> = (0..160).map(|_| (rng.usize(n) as u32, rng.usize(n) as u32)).collect();
                (Some(ys), Some(pairs))
            };
            for enc in ["near", "auto", "chain"] {
                apis.push(ApiCase {
                    n,
                    edges: edges.clone(),
                    enc: enc.to_string(),
                    meas: meas.clone(),
                    steps: steps.clone(),
                    ys: ys.clone(),
                    pairs: pairs.clone(),
                    family: "nested-exceptions",
                });
            }
        }
        // 4. Cypher histories
        for _ in 0..(if thorough { 6000 } else { 700 }) {
            scripts.push(gen_mgr(&mut rng));
        }
        for _ in 0..(if thorough { 1500 } else { 200 }) {
            scripts.push(gen_mgr_rewire(&mut rng));
        }
    }

    // ---- evaluate api cases ---------------------------------------------------------------
    let mut first_break: Option<(String, String)> = None;
    for chunk in apis.chunks(40_000) {
        let real: Vec<String> = par_map(chunk, 12, run_api_real);
        let mut lines = Vec::with_capacity(chunk.len() * 2);
        for (c, o) in chunk.iter().zip(real.iter()) {
            lines.push(format!("run {}", c.render()));
            if o.starts_with("error") || o == "panic" {
                lines.push("noop".to_string());
            } else {
                lines.push(format!("spec {} {}", c.render_common(false), o));
            }
        }
        let replies = driver::par_batch(&exe, &lines, 12);
        for (k, c) in chunk.iter().enumerate() {
            let m = &replies[2 * k];
            let s = &replies[2 * k + 1];
            let o = &real[k];
            let rendered = c.render();
            let nt = c.nontrivial();
            rep.case(&rendered, nt);
            rep.count(&format!("api:{}", c.family));
            let kind = o.split_whitespace().next().unwrap_or("?");
            rep.count(&format!("encoding_built:{}", kind));
            if nt && rep.samples.len() < 3 && c.family != "exhaustive" {
                rep.sample(json!({"api": rendered, "impl_obs": o.chars().take(300).collect::<String>()}));
            }
            let body = format!("api {}\n# impl  {}\n# model {}\n# spec  {}", rendered, o, m, s);
            if o.starts_with("error") || o == "panic" {
                rep.spec_violation(&known, &format!("api:{}:{}", c.enc, kind), &format!("implementation failed on `{}`: {}", rendered, o), &body);
            } else if s != "ok" {
                let what = s.split_whitespace().nth(1).unwrap_or("?");
                let upd = s.split_whitespace().nth(4).map(|x| x != "0").unwrap_or(false);
                let sig = format!("api:{}:{}{}", kind, what, if upd { "-after-update" } else { "" });
                rep.count(&format!("spec_violation:{}", sig));
                rep.spec_violation(&known, &sig, &format!("specification violated ({}) on `{}`", s, rendered), &body);
            } else if *m != format!("ok {}", o) {
                rep.count("model_mismatch:api");
                if first_break.is_none() {
                    first_break = Some(("SgModel.Oeh.{buildAuto,buildForced,Index.*} = OehIndex::{build,build_forced,subsumes,descendants,lowest_common_ancestors,rollup,update_measure} (observations incl. width, structural_bytes, descendant order)".into(), body));
                }
            }
        }
    }

    // ---- evaluate scripts --------------------------------------------------------------------
    for chunk in scripts.chunks(20_000) {
        let real: Vec<Vec<String>> = par_map(chunk, 12, run_script_real);
        let mut lines = Vec::with_capacity(chunk.len() * 2);
        for (sc, o) in chunk.iter().zip(real.iter()) {
            let abs = script_abs(sc);
            if sc.modelled {
                lines.push(format!("mrun 0 {} {}", sc.n, abs));
            } else {
                lines.push("noop".to_string());
            }
            lines.push(format!("mspec {} {} {}", sc.n, abs, o.join(";")));
        }
        let replies = driver::par_batch(&exe, &lines, 12);
        for (k, sc) in chunk.iter().enumerate() {
            let m = &replies[2 * k];
            let s = &replies[2 * k + 1];
            let o = &real[k];
            let abs = script_abs(sc);
            let rendered = format!("{} {}", sc.n, abs);
            let nt = mgr_nontrivial(sc, o);
            rep.case(&rendered, nt);
            rep.count(if sc.modelled { "mgr:history" } else { "mgr:cy-script" });
            for (st, ob) in sc.stmts.iter().zip(o.iter()) {
                if st.abs.starts_with('q') {
                    rep.count(if ob.starts_with("I:") { "plan:index" } else { "plan:expansion" });
                } else if st.abs.starts_with('c') || st.abs == "b" {
                    rep.count(&format!("ddl:{}", ob));
                }
            }
            if nt && sc.modelled && rep.samples.len() < 6 {
                rep.sample(json!({"mgr": rendered, "impl_obs": o.join(";")}));
            }
            let line = if sc.modelled {
                format!("mgr {} {}", sc.n, abs)
            } else {
                format!(
                    "cy {} {} {} ;; {}",
                    sc.tag,
                    sc.n,
                    sc.setup.join(" || "),
                    sc.stmts.iter().map(|s| format!("{} ¦ {}", s.abs, s.cypher)).collect::<Vec<_>>().join(" ;; ")
                )
            };
            let cy: Vec<String> = sc.stmts.iter().map(|s| format!("#   {}", s.cypher)).collect();
            let body = format!("{}\n# impl  {}\n# model {}\n# spec  {}\n# cypher:\n{}", line, o.join(";"), m, s, cy.join("\n"));
            let impl_as_model: String = o
                .iter()
                .map(|x| {
                    if x.starts_with("I:") || x.starts_with("E:") {
                        let f: Vec<&str> = x.split(':').collect();
                        format!("{}:{}", f[0], f.get(1).unwrap_or(&"?"))
                    } else {
                        x.clone()
                    }
                })
                .collect::<Vec<_>>()
                .join(";");
            if o.iter().any(|x| x == "panic" || x == "ERR") {
                rep.spec_violation(&known, "mgr:statement-failed", &format!("a statement failed on `{}`", rendered), &body);
            } else if s != "ok" {
                let sig = mgr_signature(sc, s);
                rep.count(&format!("spec_violation:{}", sig));
                rep.spec_violation(&known, &sig, &format!("specification violated ({}) on `{}`", s, rendered), &body);
            } else if sc.modelled && *m != format!("ok {}", impl_as_model) {
                rep.count("model_mismatch:mgr");
                if first_break.is_none() {
                    first_break = Some(("SgModel.Oeh.{mstepWith,answerWith} = HierarchyIndexManager / hierarchy_detector::detect / Cypher execution (plan kind, DDL outcome, rows)".into(), body));
                }
            }
        }
    }

    if let Some((name, body)) = first_break {
        if rep.spec_violations.is_empty() {
            rep.correspondence_break(
                &name,
                "model and implementation observations differ but the specification holds on all explored cases",
                &body,
            );
        }
    }
    rep.write(&args.out);
}
