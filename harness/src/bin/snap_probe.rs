//! throwaway probe (agent snap) — deleted before hand-in
use samyama::graph::{GraphStore, PropertyValue as PV, Label, IsolationLevel};
use samyama::snapshot::{export_tenant, import_tenant, import_tenant_with_dedup};
use std::io::Read;

fn lines(buf: &[u8]) -> Vec<String> {
    let mut s = String::new();
    flate2::read::GzDecoder::new(buf).read_to_string(&mut s).unwrap();
    s.lines().map(|x| x.to_string()).collect()
}
fn dump(st: &GraphStore) {
    for n in st.all_nodes() {
        let mut l: Vec<_> = n.labels.iter().map(|x| x.as_str().to_string()).collect(); l.sort();
        let mut p: Vec<_> = st.node_properties_merged(n.id).into_iter().collect(); p.sort_by(|a,b| a.0.cmp(&b.0));
        println!("  node {} v{} labels={:?} props={:?} row={:?}", n.id.as_u64(), n.version, l, p, n.properties);
    }
    for l in st.all_labels() { let mut ids: Vec<u64> = st.get_nodes_by_label(l).iter().map(|n| n.id.as_u64()).collect(); ids.sort(); println!("  idx {:?} -> {:?}", l.as_str(), ids); }
    for e in st.all_edges() { println!("  edge {} {}->{} {} {:?}", e.id.as_u64(), e.source.as_u64(), e.target.as_u64(), e.edge_type.as_str(), e.properties); }
    println!("  edge_count={}", st.edge_count());
}
fn rt(name: &str, src: &GraphStore) {
    println!("== {}", name);
    let mut buf = vec![]; export_tenant(src, &mut buf).unwrap();
    for l in lines(&buf).iter().skip(1) { println!("  L {}", l); }
    let mut dst = GraphStore::new();
    match import_tenant(&mut dst, &buf[..]) { Ok(s) => println!("  import ok {:?}", s), Err(e) => println!("  import ERR {}", e) }
    println!(" src:"); dump(src); println!(" dst:"); dump(&dst);
}
fn main() {
    // 9 trim, 10 nan, vector nan
    let mut s = GraphStore::new();
    let a = s.create_node("A");
    s.set_node_property("default", a, "s", " a ").unwrap();
    s.set_node_property("default", a, "nan", f64::NAN).unwrap();
    s.set_node_property("default", a, "inf", f64::NEG_INFINITY).unwrap();
    s.set_node_property("default", a, "v", PV::Vector(vec![1.0, f32::NAN, 2.5])).unwrap();
    s.set_node_property("default", a, "f", 1.0f64).unwrap();
    s.set_node_property("default", a, "big", 1e300f64).unwrap();
    s.set_node_property("default", a, "nz", -0.0f64).unwrap();
    rt("trim/nan", &s);
    // 11 unlabelled, 13 extra labels
    let mut s = GraphStore::new();
    let _u = s.create_node_with_labels(Vec::<Label>::new());
    let _m = s.create_node_with_labels(vec![Label::new("X"), Label::new("Y"), Label::new("Z")]);
    rt("unlabelled/multilabel", &s);
    // 12 versions
    let mut s = GraphStore::new();
    let a = s.create_node("A");
    s.set_node_property("default", a, "k", 1i64).unwrap();
    let t = s.begin_transaction(IsolationLevel::SnapshotIsolation);
    let r = s.commit_transaction(t); println!("commit {:?}", r.is_ok());
    s.set_node_property("default", a, "k", 2i64).unwrap();
    rt("versions", &s);
    // 14 routing
    let mut s = GraphStore::new();
    let a = s.create_node("A"); let b = s.create_node("B");
    let mut pm = samyama::graph::PropertyMap::new(); pm.insert("t".into(), PV::String("n".into()));
    s.create_edge_with_properties(a, b, "R", pm).unwrap();
    rt("routing", &s);
    // self loop on node 0 with props
    let mut s = GraphStore::new();
    let a = s.create_node("A");
    let mut pm = samyama::graph::PropertyMap::new(); pm.insert("w".into(), PV::Integer(5));
    s.create_edge_with_properties(a, a, "LOOP", pm).unwrap();
    rt("selfloop0", &s);
    // float text round trip
    let mut bad = 0; let mut x: u64 = 0x9E3779B97F4A7C15;
    for _ in 0..2_000_000 { x ^= x << 13; x ^= x >> 7; x ^= x << 17; let f = f64::from_bits(x); if !f.is_finite() { continue; }
        let t = serde_json::to_string(&serde_json::json!(f)).unwrap(); let v: serde_json::Value = serde_json::from_str(&t).unwrap();
        if v.as_f64().map(|g| g.to_bits()) != Some(f.to_bits()) { bad += 1; if bad < 4 { println!("float text mismatch {:016x} {} -> {:?}", x, t, v); } } }
    println!("float text mismatches: {}", bad);
    // C13 witness
    let mut s = GraphStore::new();
    let c = s.create_node("C"); s.set_node_property("default", c, "name", "x").unwrap();
    let snap = {
        let mut enc = flate2::write::GzEncoder::new(Vec::new(), flate2::Compression::default());
        use std::io::Write;
        enc.write_all(b"{\"format\":\"sgsnap\",\"version\":2,\"tenant\":\"default\",\"node_count\":1,\"edge_count\":1,\"labels\":[\"C\"],\"edge_types\":[\"R\"],\"created_at\":\"\",\"samyama_version\":\"\"}\n{\"t\":\"n\",\"id\":7,\"labels\":[\"C\",\"D\"],\"props\":{\"name\":\"x\",\"extra\":1}}\n{\"t\":\"e\",\"id\":0,\"src\":7,\"tgt\":7,\"type\":\"R\",\"props\":{}}\n{\"t\":\"e\",\"id\":1,\"src\":7,\"tgt\":99,\"type\":\"R\",\"props\":{}}\n").unwrap();
        enc.finish().unwrap() };
    println!("== C13"); dump(&s);
    println!(" import: {:?}", import_tenant_with_dedup(&mut s, &snap[..], &["name"]).map(|x| x.node_count).map_err(|e| e.to_string()));
    dump(&s);
    // hierarchy reverse
    use samyama::index::hierarchy::{HierarchySpec, RollupOp};
    use samyama::graph::EdgeType;
    let mut s = GraphStore::new();
    let r = s.create_node("Class"); let l = s.create_node("Drug"); s.create_edge(r, l, "HAS").unwrap();
    s.set_node_property("default", l, "units", 3i64).unwrap();
    let mgr = std::sync::Arc::clone(&s.hierarchy_index);
    let mut spec = HierarchySpec::new("h", vec![EdgeType::new("HAS")]); spec.reverse = true;
    spec = spec.with_measure(Some(Label::new("Drug")), "units", vec![RollupOp::Min, RollupOp::Max]);
    println!("create {:?}", mgr.create(&s, spec).map(|i| (i.encoding, i.ops)));
    let mut buf = vec![]; export_tenant(&s, &mut buf).unwrap();
    for l in lines(&buf).iter().skip(1) { println!("  L {}", l); }
    let mut d = GraphStore::new(); import_tenant(&mut d, &buf[..]).unwrap();
    let e = d.hierarchy_index.get("h").unwrap(); println!("  dst spec {:?}", e.read().unwrap().spec);
    let e = s.hierarchy_index.get("h").unwrap(); println!("  src spec {:?}", e.read().unwrap().spec);
}
