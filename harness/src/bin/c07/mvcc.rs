//! Shared by c07.rs and c08.rs: the op alphabet of the MVCC store model (`SgModel.Mvcc`), the run
//! against the real `GraphStore`, and the dump of every versioned read after every step.
use samyama::graph::{
    EdgeId, GraphError, GraphStore, IsolationLevel, Label, NodeId, PropertyMap, PropertyValue, TxnStatus,
};
use samyama::query::QueryEngine;

pub const PROBE_IDS: u64 = 3;
pub const PROBE_TXNS: u64 = 3;

#[derive(Clone, Debug, PartialEq)]
pub enum Op {
    CreateNode(u64),
    SetProp(u64, u64, i64),
    RemoveProp(u64, u64),
    AddLabel(u64, u64),
    RemoveLabel(u64, u64),
    DeleteNode(u64),
    CreateEdge(u64, u64, Vec<(u64, i64)>),
    SetEdge(u64, u64, i64),
    DeleteEdge(u64),
    Begin(bool),
    WriteNode(u64, u64),
    WriteEdge(u64, u64),
    Commit(u64),
    Abort(u64),
    Bump,
    GcAuto,
    Gc(u64),
}

impl Op {
    pub fn kind(&self) -> &'static str {
        match self {
            Op::CreateNode(_) => "createNode",
            Op::SetProp(..) => "setProp",
            Op::RemoveProp(..) => "removeProp",
            Op::AddLabel(..) => "addLabel",
            Op::RemoveLabel(..) => "removeLabel",
            Op::DeleteNode(_) => "deleteNode",
            Op::CreateEdge(..) => "createRel",
            Op::SetEdge(..) => "setRel",
            Op::DeleteEdge(_) => "deleteRel",
            Op::Begin(_) => "begin",
            Op::WriteNode(..) => "txnWriteNode",
            Op::WriteEdge(..) => "txnWriteRel",
            Op::Commit(_) => "commit",
            Op::Abort(_) => "abort",
            Op::Bump => "bump",
            Op::GcAuto => "gcAuto",
            Op::Gc(_) => "gc",
        }
    }
}

fn show_props(p: &[(u64, i64)]) -> String {
    if p.is_empty() {
        "-".into()
    } else {
        p.iter().map(|(k, v)| format!("{}={}", k, v)).collect::<Vec<_>>().join("+")
    }
}

pub fn render1(op: &Op) -> String {
    match op {
        Op::CreateNode(l) => format!("cn:{}", l),
        Op::SetProp(n, k, v) => format!("sp:{}.{}.{}", n, k, v),
        Op::RemoveProp(n, k) => format!("rp:{}.{}", n, k),
        Op::AddLabel(n, l) => format!("al:{}.{}", n, l),
        Op::RemoveLabel(n, l) => format!("rl:{}.{}", n, l),
        Op::DeleteNode(n) => format!("dn:{}", n),
        Op::CreateEdge(a, b, p) => format!("ce:{}.{}.{}", a, b, show_props(p)),
        Op::SetEdge(e, k, v) => format!("se:{}.{}.{}", e, k, v),
        Op::DeleteEdge(e) => format!("de:{}", e),
        Op::Begin(true) => "b:si".into(),
        Op::Begin(false) => "b:rc".into(),
        Op::WriteNode(t, n) => format!("wn:{}.{}", t, n),
        Op::WriteEdge(t, e) => format!("we:{}.{}", t, e),
        Op::Commit(t) => format!("c:{}", t),
        Op::Abort(t) => format!("a:{}", t),
        Op::Bump => "u".into(),
        Op::GcAuto => "g:auto".into(),
        Op::Gc(w) => format!("g:{}", w),
    }
}
pub fn render(ops: &[Op]) -> String {
    ops.iter().map(render1).collect::<Vec<_>>().join(";")
}

pub fn parse(s: &str) -> Option<Vec<Op>> {
    let mut ops = vec![];
    for p in s.split(';') {
        let (k, rest) = match p.split_once(':') {
            Some((k, r)) => (k, r),
            None => (p, ""),
        };
        let f: Vec<&str> = rest.split('.').collect();
        let n = |i: usize| -> Option<u64> { f.get(i)?.parse().ok() };
        let iv = |i: usize| -> Option<i64> { f.get(i)?.parse().ok() };
        ops.push(match k {
            "cn" => Op::CreateNode(n(0)?),
            "sp" => Op::SetProp(n(0)?, n(1)?, iv(2)?),
            "rp" => Op::RemoveProp(n(0)?, n(1)?),
            "al" => Op::AddLabel(n(0)?, n(1)?),
            "rl" => Op::RemoveLabel(n(0)?, n(1)?),
            "dn" => Op::DeleteNode(n(0)?),
            "ce" => {
                let mut props = vec![];
                let p = f.get(2)?;
                if *p != "-" {
                    for kv in p.split('+') {
                        let (a, b) = kv.split_once('=')?;
                        props.push((a.parse().ok()?, b.parse().ok()?));
                    }
                }
                Op::CreateEdge(n(0)?, n(1)?, props)
            }
            "se" => Op::SetEdge(n(0)?, n(1)?, iv(2)?),
            "de" => Op::DeleteEdge(n(0)?),
            "b" => Op::Begin(rest == "si"),
            "wn" => Op::WriteNode(n(0)?, n(1)?),
            "we" => Op::WriteEdge(n(0)?, n(1)?),
            "c" => Op::Commit(n(0)?),
            "a" => Op::Abort(n(0)?),
            "u" => Op::Bump,
            "g" => {
                if rest == "auto" {
                    Op::GcAuto
                } else {
                    Op::Gc(n(0)?)
                }
            }
            _ => return None,
        });
    }
    Some(ops)
}

fn label(l: u64) -> Label {
    Label::new(format!("L{}", l))
}
fn key(k: u64) -> String {
    format!("k{}", k)
}

fn show_pm(pm: &PropertyMap) -> String {
    let mut v: Vec<(u64, String)> = pm
        .iter()
        .map(|(k, v)| {
            let kk = k.trim_start_matches('k').parse::<u64>().unwrap_or(999);
            let vv = match v {
                PropertyValue::Integer(i) => i.to_string(),
                other => format!("?{:?}", other).replace([' ', ';', '|', ',', '/', ':', '+', '='], "_"),
            };
            (kk, vv)
        })
        .collect();
    v.sort();
    if v.is_empty() {
        "-".into()
    } else {
        v.iter().map(|(k, v)| format!("{}={}", k, v)).collect::<Vec<_>>().join("+")
    }
}

fn show_node(n: Option<&samyama::graph::Node>) -> String {
    match n {
        None => "_".into(),
        Some(n) => {
            let mut ls: Vec<u64> =
                n.labels.iter().map(|l| l.as_str().trim_start_matches('L').parse::<u64>().unwrap_or(999)).collect();
            ls.sort();
            let l = if ls.is_empty() {
                "-".to_string()
            } else {
                ls.iter().map(|x| x.to_string()).collect::<Vec<_>>().join("+")
            };
            format!("{}:{}:{}", n.version, l, show_pm(&n.properties))
        }
    }
}
fn show_edge(e: Option<samyama::graph::Edge>) -> String {
    match e {
        None => "_".into(),
        Some(e) => format!("{}:{}", e.version, show_pm(&e.properties)),
    }
}

/// The dump after one step (same text as the Lean `showObs`).
pub fn dump(st: &GraphStore, out: &str) -> String {
    let cur = st.current_version;
    let mut all: Vec<(u64, u64)> = st.all_nodes().iter().map(|n| (n.id.as_u64(), n.version)).collect();
    all.sort();
    let all_s = if all.is_empty() {
        "-".to_string()
    } else {
        all.iter().map(|(i, v)| format!("{}.{}", i, v)).collect::<Vec<_>>().join(",")
    };
    let mut nr = vec![];
    let mut er = vec![];
    let mut ends = vec![];
    for id in 1..=PROBE_IDS {
        nr.push(
            (0..=cur).map(|v| show_node(st.get_node_at_version(NodeId::new(id), v))).collect::<Vec<_>>().join(","),
        );
        er.push(
            (0..=cur).map(|v| show_edge(st.get_edge_at_version(EdgeId::new(id), v))).collect::<Vec<_>>().join(","),
        );
        ends.push(match st.get_edge_endpoints(EdgeId::new(id)) {
            Some((a, b)) => format!("{}.{}", a.as_u64(), b.as_u64()),
            None => "0.0".into(),
        });
    }
    let mut tn = vec![];
    let mut te = vec![];
    let mut act = vec![];
    for t in 1..=PROBE_TXNS {
        tn.push(show_node(st.get_node_for_txn(t, NodeId::new(1))));
        te.push(show_edge(st.get_edge_for_txn(t, EdgeId::new(1))));
        act.push(match st.active_transactions.get(&t) {
            Some(x) if x.status == TxnStatus::Active => "1",
            _ => "0",
        });
    }
    format!(
        "{}|{}|{}|{}|{}|{}|{}|{}|{}|{}|{}",
        out,
        cur,
        st.gc_watermark(),
        st.node_count(),
        all_s,
        nr.join("/"),
        er.join("/"),
        ends.join(","),
        tn.join(","),
        te.join(","),
        act.join(",")
    )
}

fn err_code(e: &GraphError) -> String {
    match e {
        GraphError::NodeNotFound(_) | GraphError::EdgeNotFound(_) => "NF".into(),
        GraphError::InvalidEdgeSource(_) => "BS".into(),
        GraphError::InvalidEdgeTarget(_) => "BT".into(),
        GraphError::WriteConflict(_) => "TX".into(),
        GraphError::TransactionNotFound(_) => "TNF".into(),
        GraphError::TransactionNotActive(_) => "TNA".into(),
        other => format!("E?{:?}", other).replace([' ', ';', '|', ',', '/'], "_"),
    }
}

pub fn apply(st: &mut GraphStore, op: &Op) -> String {
    match op {
        Op::CreateNode(l) => format!("I{}", st.create_node(label(*l)).as_u64()),
        Op::SetProp(n, k, v) => match st.set_node_property("default", NodeId::new(*n), key(*k), *v) {
            Ok(()) => "OK".into(),
            Err(e) => err_code(&e),
        },
        Op::RemoveProp(n, k) => {
            st.remove_node_property(NodeId::new(*n), &key(*k));
            "OK".into()
        }
        Op::AddLabel(n, l) => match st.add_label_to_node("default", NodeId::new(*n), label(*l)) {
            Ok(()) => "OK".into(),
            Err(e) => err_code(&e),
        },
        Op::RemoveLabel(n, l) => match st.remove_label_from_node(NodeId::new(*n), &label(*l)) {
            Ok(true) => "OK".into(),
            Ok(false) => "NO".into(),
            Err(e) => err_code(&e),
        },
        Op::DeleteNode(n) => match st.delete_node("default", NodeId::new(*n)) {
            Ok(_) => "OK".into(),
            Err(e) => err_code(&e),
        },
        Op::CreateEdge(a, b, props) => {
            let r = if props.is_empty() {
                st.create_edge(NodeId::new(*a), NodeId::new(*b), "R")
            } else {
                let mut pm = PropertyMap::new();
                for (k, v) in props {
                    pm.insert(key(*k), PropertyValue::Integer(*v));
                }
                st.create_edge_with_properties(NodeId::new(*a), NodeId::new(*b), "R", pm)
            };
            match r {
                Ok(id) => format!("I{}", id.as_u64()),
                Err(e) => err_code(&e),
            }
        }
        Op::SetEdge(e, k, v) => {
            // precondition of the correspondence: set_edge_property does not check that the
            // relationship exists (it would create a stale row for a dead id); not issued then
            if !st.has_edge(EdgeId::new(*e)) {
                "NF".into()
            } else {
                match st.set_edge_property(EdgeId::new(*e), key(*k), *v) {
                    Ok(()) => "OK".into(),
                    Err(e) => err_code(&e),
                }
            }
        }
        Op::DeleteEdge(e) => match st.delete_edge(EdgeId::new(*e)) {
            Ok(_) => "OK".into(),
            Err(e) => err_code(&e),
        },
        Op::Begin(si) => format!(
            "TB{}",
            st.begin_transaction(if *si { IsolationLevel::SnapshotIsolation } else { IsolationLevel::ReadCommitted })
        ),
        Op::WriteNode(t, n) => {
            st.txn_write_node(*t, NodeId::new(*n));
            "TU".into()
        }
        Op::WriteEdge(t, e) => {
            st.txn_write_edge(*t, EdgeId::new(*e));
            "TU".into()
        }
        Op::Commit(t) => match st.commit_transaction(*t) {
            Ok(v) => format!("TC{}", v),
            Err(e) => err_code(&e),
        },
        Op::Abort(t) => match st.abort_transaction(*t) {
            Ok(()) => "TAB".into(),
            Err(e) => err_code(&e),
        },
        Op::Bump => {
            st.current_version += 1;
            "TU".into()
        }
        Op::GcAuto => {
            st.gc_auto();
            "TU".into()
        }
        Op::Gc(w) => {
            st.gc_versions(*w);
            "TU".into()
        }
    }
}

/// Run the real store; one dump per op.  `engine_mismatch` is set when, after the last step,
/// `MATCH (n) RETURN count(n)` or the number of rows of `MATCH (n) RETURN n` differs from
/// `node_count()`.
pub fn run_real(ops: &[Op], engine: Option<&QueryEngine>, engine_mismatch: &mut Option<String>) -> String {
    let mut st = GraphStore::new();
    let mut obs = Vec::with_capacity(ops.len());
    for op in ops {
        let out = apply(&mut st, op);
        obs.push(dump(&st, &out));
    }
    if let Some(eng) = engine {
        let cnt = eng.execute("MATCH (n) RETURN count(n)", &st).ok().and_then(|b| {
            b.records.first().and_then(|r| {
                let c = b.columns.first()?;
                r.get(c)?.as_property()?.as_integer()
            })
        });
        let rows = eng.execute("MATCH (n) RETURN n", &st).ok().map(|b| b.records.len() as i64);
        let live = (1..=64u64).filter(|i| st.get_node(NodeId::new(*i)).is_some()).count() as i64;
        if cnt != Some(live) || rows != Some(live) {
            *engine_mismatch = Some(format!("count(n)={:?} rows={:?} live={}", cnt, rows, live));
        }
    }
    obs.join(";")
}

/// Appendix B for C07/C08: at least two versions of one entity exist and a read at a past
/// version is re-checked after a later write, commit or abort (`need_gc`: and a `gc` pruned at
/// least one version).
pub fn nontrivial(ops: &[Op], need_gc: bool) -> bool {
    let mut st = GraphStore::new();
    let mut two_versions_then_write = false;
    let mut pruned = false;
    let mut seen_two = false;
    for op in ops {
        let is_write = !matches!(
            op,
            Op::Begin(_) | Op::Bump | Op::GcAuto | Op::Gc(_) | Op::WriteNode(..) | Op::WriteEdge(..)
        );
        if seen_two && is_write {
            two_versions_then_write = true;
        }
        match op {
            Op::Gc(w) => {
                let (a, b) = st.gc_versions(*w);
                pruned |= a + b > 0;
            }
            Op::GcAuto => {
                let (a, b) = st.gc_auto();
                pruned |= a + b > 0;
            }
            _ => {
                apply(&mut st, op);
            }
        }
        if !seen_two {
            for id in 1..=PROBE_IDS {
                let mut vs = std::collections::BTreeSet::new();
                for v in 0..=st.current_version {
                    if let Some(n) = st.get_node_at_version(NodeId::new(id), v) {
                        vs.insert(n.version);
                    }
                }
                let mut es = std::collections::BTreeSet::new();
                for v in 0..=st.current_version {
                    if let Some(e) = st.get_edge_at_version(EdgeId::new(id), v) {
                        es.insert(e.version);
                    }
                }
                if vs.len() >= 2 || es.len() >= 2 {
                    seen_two = true;
                }
            }
        }
    }
    if need_gc {
        seen_two && pruned
    } else {
        two_versions_then_write
    }
}

/// Run the real store on every history, on `threads` threads (one store and one query engine
/// per case / per thread).  Returns per case: the dumps, the engine mismatch (checked on every
/// `engine_every`-th case, 0 = never) and the non-triviality flag.
pub fn run_all(seqs: &[Vec<Op>], threads: usize, engine_every: usize, need_gc: bool) -> Vec<(String, Option<String>, bool)> {
    let n = seqs.len();
    let mut out: Vec<(String, Option<String>, bool)> = vec![(String::new(), None, false); n];
    let per = (n + threads - 1) / threads.max(1);
    if per == 0 {
        return out;
    }
    std::thread::scope(|sc| {
        for (ci, (slice, res)) in seqs.chunks(per).zip(out.chunks_mut(per)).enumerate() {
            sc.spawn(move || {
                let engine = QueryEngine::new();
                for (j, ops) in slice.iter().enumerate() {
                    let k = ci * per + j;
                    let r = std::panic::catch_unwind(std::panic::AssertUnwindSafe(|| {
                        let mut em = None;
                        let use_engine = engine_every > 0 && k % engine_every == 0;
                        let o = run_real(ops, if use_engine { Some(&engine) } else { None }, &mut em);
                        let nt = nontrivial(ops, need_gc);
                        (o, em, nt)
                    }));
                    res[j] = r.unwrap_or_else(|_| ("PANIC".to_string(), None, false));
                }
            });
        }
    });
    out
}
