//! C13 — a failed snapshot import leaves the store unchanged (and a successful one adds exactly
//! the snapshot, merged on the dedup keys).
//! Real `import_tenant_with_dedup` on truncated / corrupted / dangling snapshots into
//! pre-populated stores vs the Lean model `SgModel.SnapJson.importLines` (remap table, dedup
//! index, merge path, undo journal, rollback) and the executable specification `specImport`.
#[path = "snap/mod.rs"]
mod snap;
use samyama::graph::PropertyValue as PV;
use samyama::snapshot::format::{SnapshotEdge, SnapshotHeader, SnapshotHierarchyIndex, SnapshotNode};
use samyama::snapshot::{export_tenant, import_tenant_with_dedup};
use serde_json::json;
use snap::ops::{build, gen_program, parse_ops, render_ops, Op};
use snap::*;
use std::io::{BufRead, BufReader, Read, Write};
use std::panic::{catch_unwind, AssertUnwindSafe};
use vharness::{driver, Args, Known, Report, Rng};

#[derive(Clone, Debug)]
enum Mutation {
    None,
    /// cut the gzip stream after `k` bytes
    TruncGz(usize),
    /// xor one byte of the gzip stream
    FlipGz(usize, u8),
    /// cut the *text* after `k` bytes and re-compress (a well-formed gzip of a truncated body)
    TruncText(usize),
    /// xor one byte of the text and re-compress
    FlipText(usize, u8),
    /// append a relationship whose target id does not exist (fails after everything else was applied)
    Dangling,
    /// drop body line `k` (a later relationship may then reference an unknown node)
    DropLine(usize),
    /// keep the header and the first `k` body lines, then one cut-off record: the failure is
    /// planted exactly at record boundary `k`
    CutAfterLine(usize),
}

fn render_mut(m: &Mutation) -> String {
    match m {
        Mutation::None => "none".into(),
        Mutation::TruncGz(k) => format!("truncgz:{}", k),
        Mutation::FlipGz(k, x) => format!("flipgz:{}:{}", k, x),
        Mutation::TruncText(k) => format!("trunctext:{}", k),
        Mutation::FlipText(k, x) => format!("fliptext:{}:{}", k, x),
        Mutation::Dangling => "dangling".into(),
        Mutation::DropLine(k) => format!("dropline:{}", k),
        Mutation::CutAfterLine(k) => format!("cutafter:{}", k),
    }
}

fn parse_mut(s: &str) -> Option<Mutation> {
    let f: Vec<&str> = s.split(':').collect();
    match f.as_slice() {
        ["none"] => Some(Mutation::None),
        ["truncgz", k] => Some(Mutation::TruncGz(k.parse().ok()?)),
        ["flipgz", k, x] => Some(Mutation::FlipGz(k.parse().ok()?, x.parse().ok()?)),
        ["trunctext", k] => Some(Mutation::TruncText(k.parse().ok()?)),
        ["fliptext", k, x] => Some(Mutation::FlipText(k.parse().ok()?, x.parse().ok()?)),
        ["dangling"] => Some(Mutation::Dangling),
        ["dropline", k] => Some(Mutation::DropLine(k.parse().ok()?)),
        ["cutafter", k] => Some(Mutation::CutAfterLine(k.parse().ok()?)),
        _ => None,
    }
}

fn gunzip(buf: &[u8]) -> Option<String> {
    let mut s = String::new();
    flate2::read::GzDecoder::new(buf).read_to_string(&mut s).ok()?;
    Some(s)
}

fn gzip(text: &[u8]) -> Vec<u8> {
    let mut enc = flate2::write::GzEncoder::new(Vec::new(), flate2::Compression::new(3));
    enc.write_all(text).unwrap();
    enc.finish().unwrap()
}

fn apply_mutation(orig: &[u8], m: &Mutation) -> Vec<u8> {
    match m {
        Mutation::None => orig.to_vec(),
        Mutation::TruncGz(k) => orig[..(*k).min(orig.len())].to_vec(),
        Mutation::FlipGz(k, x) => {
            let mut v = orig.to_vec();
            if !v.is_empty() {
                let i = k % v.len();
                v[i] ^= if *x == 0 { 1 } else { *x };
            }
            v
        }
        Mutation::TruncText(k) => {
            let t = gunzip(orig).unwrap_or_default().into_bytes();
            gzip(&t[..(*k).min(t.len())])
        }
        Mutation::FlipText(k, x) => {
            let mut t = gunzip(orig).unwrap_or_default().into_bytes();
            if !t.is_empty() {
                let i = k % t.len();
                t[i] ^= if *x == 0 { 1 } else { *x };
            }
            gzip(&t)
        }
        Mutation::Dangling => {
            let mut t = gunzip(orig).unwrap_or_default();
            // source = the first node id of the snapshot if there is one
            let first = t
                .lines()
                .skip(1)
                .filter_map(|l| serde_json::from_str::<serde_json::Value>(l).ok())
                .find(|v| v["t"] == "n")
                .and_then(|v| v["id"].as_u64())
                .unwrap_or(424242);
            t.push_str(&format!("{{\"t\":\"e\",\"id\":999999,\"src\":{},\"tgt\":424243,\"type\":\"R\",\"props\":{{}}}}\n", first));
            gzip(t.as_bytes())
        }
        Mutation::CutAfterLine(k) => {
            let t = gunzip(orig).unwrap_or_default();
            let lines: Vec<&str> = t.lines().collect();
            let keep = (1 + k).min(lines.len());
            let mut out = lines[..keep].join("\n");
            out.push_str("\n{\"t\":\"n\",\"id\":");
            gzip(out.as_bytes())
        }
        Mutation::DropLine(k) => {
            let t = gunzip(orig).unwrap_or_default();
            let lines: Vec<&str> = t.lines().collect();
            let body = lines.len().saturating_sub(1);
            let drop = if body == 0 { usize::MAX } else { 1 + k % body };
            let kept: Vec<&str> = lines.iter().enumerate().filter(|(i, _)| *i != drop).map(|(_, l)| *l).collect();
            gzip((kept.join("\n") + "\n").as_bytes())
        }
    }
}

/// What the importer's reader yields for these bytes: the header's label list and the body
/// lines as model `J` text, ending with `!` at the first unreadable / ill-typed line.
/// `None` = outside the model (format version 1).
struct Decoded {
    hdr_labels: Vec<String>,
    lines: Vec<String>,
    ids: Vec<u64>,
}

fn decode_like_importer(bytes: &[u8]) -> Option<Decoded> {
    let mut lines = BufReader::new(flate2::read::GzDecoder::new(bytes)).lines();
    let fail = Decoded { hdr_labels: vec![], lines: vec!["!".into()], ids: vec![] };
    let header: SnapshotHeader = match lines.next() {
        Some(Ok(h)) => match serde_json::from_str(&h) {
            Ok(x) => x,
            Err(_) => return Some(fail),
        },
        _ => return Some(fail),
    };
    if header.format != "sgsnap" || (header.version != 1 && header.version != 2) {
        return Some(fail);
    }
    if header.version == 1 {
        return None;
    }
    let mut out = vec![];
    let mut ids = vec![];
    for l in lines {
        let Ok(l) = l else {
            out.push("!".to_string());
            break;
        };
        if l.is_empty() {
            continue;
        }
        let Ok(v) = serde_json::from_str::<serde_json::Value>(&l) else {
            out.push("!".to_string());
            break;
        };
        // the typed read (serde derive) is part of the trusted text layer
        let typed_ok = match v.get("t").and_then(|t| t.as_str()) {
            Some("n") => serde_json::from_str::<SnapshotNode>(&l).map(|n| ids.push(n.id)).is_ok(),
            Some("e") => serde_json::from_str::<SnapshotEdge>(&l).is_ok(),
            Some("h") => serde_json::from_str::<SnapshotHierarchyIndex>(&l).is_ok(),
            Some(_) => true,
            None => v.get("t").is_none() && v.is_object(),
        };
        if !typed_ok {
            out.push("!".to_string());
            break;
        }
        out.push(j_text(&v));
    }
    Some(Decoded { hdr_labels: header.labels, lines: out, ids })
}

#[derive(Clone)]
struct Case {
    pre: Vec<Op>,
    snap: Vec<Op>,
    keys: Vec<String>,
    mutation: Mutation,
}

fn render_case(c: &Case) -> String {
    format!("case {} {} {} {}", strs(&c.keys), render_mut(&c.mutation), render_ops(&c.pre), render_ops(&c.snap))
}

fn parse_case(s: &str) -> Option<Case> {
    let f: Vec<&str> = s.split(' ').collect();
    if f.len() != 5 || f[0] != "case" {
        return None;
    }
    let keys = if f[1] == "-" {
        vec![]
    } else {
        f[1].split(',')
            .map(|x| {
                let h = x.strip_prefix('x')?;
                let b: Option<Vec<u8>> = (0..h.len()).step_by(2).map(|i| u8::from_str_radix(&h[i..i + 2], 16).ok()).collect();
                String::from_utf8(b?).ok()
            })
            .collect::<Option<Vec<_>>>()?
    };
    Some(Case { keys, mutation: parse_mut(f[2])?, pre: parse_ops(f[3])?, snap: parse_ops(f[4])? })
}

struct Outcome {
    case_txt: String,
    /// request arguments: "<keys> <hdr> <pre> <lines>"
    req: String,
    real: String,
    ok: bool,
    post: String,
    err: Option<String>,
    skipped: Option<&'static str>,
    feat: Features,
    diff: String,
    /// the store's next node id re-uses a freed id below an existing node
    reuses_low_id: bool,
    /// Err, but the verbatim dump (row/column placement, incoming adjacency, counters) differs
    raw_changed: bool,
    /// incoming/outgoing adjacency or the counters disagree after the import
    inconsistent: bool,
}

const NAMES: &[&str] = &["x", "X ", " y", "Zed", "z", "q"];

/// dedup-oriented node: a label from a small pool and a `name` (sometimes `code`) from a small pool
fn gen_dedup_node(r: &mut Rng) -> Op {
    let mut labels = vec![r.pick(&["A", "B", "C"]).to_string()];
    if r.chance(1, 4) {
        let l = r.pick(&["A", "B", "C", "D"]).to_string();
        if !labels.contains(&l) {
            labels.push(l);
        }
    }
    let mut props: Vec<(String, PV)> = vec![];
    if r.chance(5, 6) {
        props.push(("name".into(), PV::String(r.pick(NAMES).to_string())));
    }
    if r.chance(1, 3) {
        props.push(("code".into(), PV::Integer(r.range(1, 3))));
    }
    for (k, v) in snap::ops::gen_props(r, 2, false) {
        if k != "name" && k != "code" && !props.iter().any(|(k2, _)| *k2 == k) {
            props.push((k, v));
        }
    }
    props.sort_by(|a, b| a.0.as_bytes().cmp(b.0.as_bytes()));
    Op::Node { method: r.pick(&["api", "api", "stub", "row"]).to_string(), labels, props }
}

fn gen_dedup_program(r: &mut Rng, n_nodes: usize, n_edges: usize) -> Vec<Op> {
    let mut ops = vec![];
    for _ in 0..n_nodes {
        ops.push(gen_dedup_node(r));
    }
    for _ in 0..n_edges {
        if n_nodes == 0 {
            break;
        }
        let props = if r.chance(1, 3) { snap::ops::gen_props(r, 2, false) } else { vec![] };
        ops.push(Op::Edge {
            method: r.pick(&["full", "stub"]).to_string(),
            src: r.usize(n_nodes),
            tgt: r.usize(n_nodes),
            ty: r.pick(&["R", "KNOWS"]).to_string(),
            props,
        });
    }
    if r.chance(1, 4) {
        ops.push(Op::Compact);
    }
    ops
}

const HOLE_NAMES: &[&str] = &["alpha", "Beta", "gamma", "Delta", "eps", "Zeta", "eta", "Theta", "iota", "Kappa", "lam", "Mu"];

fn name_variant(r: &mut Rng, s: &str) -> String {
    match r.usize(5) {
        0 => s.to_uppercase(),
        1 => format!(" {} ", s),
        2 => format!("{}\t", s.to_lowercase()),
        _ => s.to_string(),
    }
}

fn hole_node(r: &mut Rng, label: &str, name: &str) -> Op {
    let mut labels = vec![label.to_string()];
    if r.chance(1, 4) {
        labels.push("X".into());
    }
    let mut props: Vec<(String, PV)> = vec![("name".into(), PV::String(name.to_string()))];
    if r.chance(1, 3) {
        props.push(("code".into(), PV::Integer(r.range(1, 50))));
    }
    for (k, v) in snap::ops::gen_props(r, 2, false) {
        if k != "name" && k != "code" && !props.iter().any(|(k2, _)| *k2 == k) {
            props.push((k, v));
        }
    }
    props.sort_by(|a, b| a.0.as_bytes().cmp(b.0.as_bytes()));
    Op::Node { method: r.pick(&["api", "api", "stub", "row"]).to_string(), labels, props }
}

fn rand_edge(r: &mut Rng, src: usize, tgt: usize) -> Op {
    let props = if r.chance(1, 3) { snap::ops::gen_props(r, 2, false) } else { vec![] };
    Op::Edge { method: r.pick(&["full", "stub"]).to_string(), src, tgt, ty: r.pick(&["R", "KNOWS"]).to_string(), props }
}

/// A pre-populated store with a create / delete / re-create history: freed node ids at the low,
/// middle or high end (or several), ids re-used by later nodes, relationships deleted along
/// with their nodes (freed relationship ids).  Every live node has a unique (label, name).
/// Returns the program and the live nodes as (label, name).
fn gen_hole_pre(r: &mut Rng) -> (Vec<Op>, Vec<(String, String)>) {
    let k = 3 + r.usize(4);
    let mut ops = vec![];
    let mut meta: Vec<Option<(String, String)>> = vec![];
    let mut next_name = 0usize;
    let mut mk = |r: &mut Rng, ops: &mut Vec<Op>, meta: &mut Vec<Option<(String, String)>>| {
        let label = r.pick(&["A", "B", "C"]).to_string();
        let name = name_variant(r, HOLE_NAMES[next_name % HOLE_NAMES.len()]);
        next_name += 1;
        ops.push(hole_node(r, &label, &name));
        meta.push(Some((label, name)));
    };
    for _ in 0..k {
        mk(r, &mut ops, &mut meta);
    }
    for _ in 0..r.usize(4) {
        let (a, b) = (r.usize(k), r.usize(k));
        ops.push(rand_edge(r, a, b));
    }
    let pattern = r.usize(8);
    let dels: Vec<usize> = match pattern {
        0 => vec![],
        1 => vec![0],
        2 => vec![k / 2],
        3 => vec![k - 1],
        4 => vec![0, 1 + r.usize(k - 1)],
        5 => vec![0],
        6 => vec![0, k - 1],
        _ => vec![r.usize(k), r.usize(k)],
    };
    for d in &dels {
        if meta[*d].is_some() {
            ops.push(Op::DelNode(*d));
            meta[*d] = None;
        }
    }
    // re-creations: the new node takes a freed id
    let recreate = match pattern {
        5 => 1,
        6 => 1,
        7 => r.usize(3),
        _ => 0,
    };
    for _ in 0..recreate {
        mk(r, &mut ops, &mut meta);
    }
    let live: Vec<usize> = (0..meta.len()).filter(|i| meta[*i].is_some()).collect();
    if !live.is_empty() {
        for _ in 0..r.usize(3) {
            let (a, b) = (*r.pick(&live), *r.pick(&live));
            ops.push(rand_edge(r, a, b));
        }
    }
    if r.chance(1, 3) {
        ops.push(Op::Compact);
    }
    (ops, meta.into_iter().flatten().collect())
}

/// A snapshot source whose records interleave nodes that merge into a live pre-store node
/// (same label and dedup value up to normalisation, with extra properties / labels), new nodes,
/// and duplicates of an earlier record — in a random order — and relationships between any of
/// them (merged/merged, merged/new, new/new, loops).
fn gen_interleaved_snap(r: &mut Rng, live: &[(String, String)]) -> Vec<Op> {
    let n = 2 + r.usize(5);
    let mut ops = vec![];
    let mut made: Vec<(String, String)> = vec![];
    let force_new_first = r.chance(1, 2);
    for i in 0..n {
        let c = r.usize(10);
        let kind = if i == 0 && force_new_first {
            1
        } else if i == 1 && force_new_first && !live.is_empty() {
            0
        } else if c < 5 && !live.is_empty() {
            0
        } else if c < 9 || made.is_empty() {
            1
        } else {
            2
        };
        let (label, name) = match kind {
            0 => {
                let (l, nm) = r.pick(live).clone();
                (l, name_variant(r, nm.trim()))
            }
            1 => (r.pick(&["A", "B", "C", "City"]).to_string(), format!("new{}", i)),
            _ => r.pick(&made).clone(),
        };
        let mut labels = vec![label.clone()];
        if r.chance(1, 3) {
            labels.push(r.pick(&["D", "Member", "X"]).to_string());
        }
        let mut props: Vec<(String, PV)> = vec![];
        if !(kind == 1 && r.chance(1, 6)) {
            props.push(("name".into(), PV::String(name.clone())));
        }
        for (k, v) in snap::ops::gen_props(r, 3, false) {
            if k != "name" && !props.iter().any(|(k2, _)| *k2 == k) {
                props.push((k, v));
            }
        }
        props.sort_by(|a, b| a.0.as_bytes().cmp(b.0.as_bytes()));
        ops.push(Op::Node { method: r.pick(&["api", "api", "stub", "row"]).to_string(), labels, props });
        made.push((label, name));
    }
    for _ in 0..1 + r.usize(5) {
        let (a, b) = (r.usize(n), r.usize(n));
        ops.push(rand_edge(r, a, b));
    }
    ops
}

/// pre-store in which two nodes of one label share a dedup value (which of them the real
/// index keeps depends on hash iteration order), or a dedup value outside the modelled
/// normalisation (non-ASCII string)
fn ambiguous_or_unmodelled(pre: &Dump, snap_src: &Dump, keys: &[String]) -> Option<&'static str> {
    let norm = |v: &PV| -> Option<Result<String, ()>> {
        match v {
            PV::String(s) => Some(if s.is_ascii() { Ok(s.trim().to_lowercase()) } else { Err(()) }),
            PV::Integer(i) => Some(Ok(i.to_string())),
            PV::Float(_) => Some(Err(())),
            _ => None,
        }
    };
    for d in [pre, snap_src] {
        for props in &d.node_props {
            for k in keys {
                if let Some(Some(Err(()))) = props.get(k).map(norm) {
                    return Some("dedup-value-outside-model");
                }
            }
        }
    }
    let mut seen = std::collections::HashSet::new();
    for (i, props) in pre.node_props.iter().enumerate() {
        for k in keys {
            if let Some(Some(Ok(v))) = props.get(k).map(norm) {
                for l in &pre.node_labels[i] {
                    if !seen.insert((l.clone(), k.clone(), v.clone())) {
                        return Some("ambiguous-pre-store");
                    }
                }
            }
        }
    }
    None
}

fn run_case(c: &Case) -> Outcome {
    let case_txt = render_case(c);
    let mk_skip = |why: &'static str| Outcome {
        case_txt: case_txt.clone(),
        req: String::new(),
        real: String::new(),
        ok: false,
        post: String::new(),
        err: None,
        skipped: Some(why),
        feat: Features::default(),
        diff: String::new(),
        reuses_low_id: false,
        raw_changed: false,
        inconsistent: false,
    };
    let r = catch_unwind(AssertUnwindSafe(|| {
        let snap_b = build(&c.snap);
        let snap_dump = dump_store(&snap_b.store);
        let mut bytes = vec![];
        export_tenant(&snap_b.store, &mut bytes).expect("export");
        let bytes = apply_mutation(&bytes, &c.mutation);
        let Some(dec) = decode_like_importer(&bytes) else { return mk_skip("format-version-1") };
        let mut pre_b = build(&c.pre);
        // The ids the store will hand out next, probed on an identical copy: the model names
        // nodes by handle (creation order) while the real store re-uses freed ids, so a node
        // the import creates may get an id *below* older nodes.
        let alloc: Vec<u64> = {
            let mut probe = build(&c.pre);
            (0..dec.ids.len() + 1).map(|_| probe.store.create_node_stub("Probe").as_u64()).collect()
        };
        let pre = dump_store_ordered(&pre_b.store, &alloc);
        if let Some(why) = ambiguous_or_unmodelled(&pre, &snap_dump, &c.keys) {
            return mk_skip(why);
        }
        let max_pre_id = pre.rank.keys().copied().max().unwrap_or(0);
        let reuses_low_id = alloc.first().map_or(false, |a| *a < max_pre_id);
        // a snapshot in which one id occurs twice after a corruption is still inside the model
        let key_refs: Vec<&str> = c.keys.iter().map(|s| s.as_str()).collect();
        let res = import_tenant_with_dedup(&mut pre_b.store, &bytes[..], &key_refs);
        let post = dump_store_ordered(&pre_b.store, &alloc);
        let (ok, real, err) = match res {
            Ok(st) => (
                true,
                format!("ok {} {}.{}.{}.{}", post.text, st.node_count, st.edge_count, st.merged_count, st.hierarchy_count),
                None,
            ),
            Err(e) => (false, format!("err {} -", post.text), Some(e.to_string())),
        };
        let mut feat = snap_b.feat.clone();
        feat.rels += pre_b.feat.rels;
        feat.edgy_string |= pre_b.feat.edgy_string;
        feat.nonscalar |= pre_b.feat.nonscalar;
        let lines = if dec.lines.is_empty() { "-".to_string() } else { dec.lines.join("+") };
        let diff = if !ok { err_diff(&pre, &post) } else { String::new() };
        Outcome {
            case_txt: case_txt.clone(),
            req: format!("{} {} {} {}", strs(&c.keys), strs(&dec.hdr_labels), pre.text, lines),
            real,
            ok,
            post: post.text.clone(),
            err,
            skipped: None,
            feat,
            diff,
            reuses_low_id,
            raw_changed: !ok && (pre.text != post.text || pre.aux != post.aux),
            inconsistent: !post.consistent,
        }
    }));
    match r {
        Ok(o) => o,
        Err(p) => {
            let msg = p.downcast_ref::<String>().cloned().or_else(|| p.downcast_ref::<&str>().map(|s| s.to_string())).unwrap_or_default();
            let mut o = mk_skip("panic");
            o.err = Some(msg);
            o
        }
    }
}

/// what a failed import left behind (structural class)
fn err_diff(pre: &Dump, post: &Dump) -> String {
    if post.n_nodes > pre.n_nodes {
        return "created-nodes-left".into();
    }
    if post.n_nodes < pre.n_nodes {
        return "nodes-lost".into();
    }
    if post.n_edges != pre.n_edges {
        return "merge-path-relationship".into();
    }
    for i in 0..pre.n_nodes {
        if pre.node_labels[i] != post.node_labels[i] {
            return "merge-path-label".into();
        }
        if props_text(pre.node_props[i].iter()) != props_text(post.node_props[i].iter()) {
            return "merge-path-property".into();
        }
    }
    String::new()
}

fn main() {
    let args = Args::parse();
    let known = Known::load(&args.known, "C13");
    let mut rep = Report::new(
        "C13",
        "(pre-populated store, exported snapshot, dedup keys, mutation of the snapshot bytes: gzip truncation / gzip byte flip / \
         text truncation / text byte flip / dropped line / appended dangling relationship / none) -> import_tenant_with_dedup; \
         non-trivial = >= 1 relationship, >= 1 non-ASCII or whitespace-edged string, >= 1 non-scalar value, and the import had taken \
         the dedup-merge path at least once before it failed; distinct = distinct case text",
        &args.replays,
        args.seed,
    );
    let exe = args.driver_exe("drv_snapjson");

    let mut cases: Vec<Case> = vec![];
    let mut n_corpus = 0;
    let mut files: Vec<std::path::PathBuf> = vec![];
    if let Some(r) = &args.replay {
        files.push(r.clone());
    } else if let Ok(rd) = std::fs::read_dir(args.corpus.join("C13")) {
        files = rd.filter_map(|e| e.ok().map(|e| e.path())).collect();
        files.sort();
    }
    for f in &files {
        for line in std::fs::read_to_string(f).unwrap_or_default().lines() {
            if let Some(c) = parse_case(line.trim()) {
                cases.push(c);
                n_corpus += 1;
            }
        }
    }
    rep.count_n("corpus_cases", n_corpus);

    if args.replay.is_none() {
        let mut rng = Rng::new(args.seed);
        let n_base = if args.thorough() { 150 } else { 84 };
        for i in 0..n_base {
            let mut r = rng.fork();
            // three families:
            //  hole    — pre-store with a create/delete/re-create history (freed and re-used ids),
            //            snapshot records interleaving merging / new / duplicate nodes in random order
            //  dedup   — small name pool so that merges happen by chance, no deletions
            //  general — arbitrary programs, deletions in the pre-store
            let family = match i % 6 {
                0 | 1 | 3 | 4 => "hole",
                2 => "dedup",
                _ => "general",
            };
            let (pre, snap) = match family {
                "hole" => {
                    let (pre, live) = gen_hole_pre(&mut r);
                    let snap = gen_interleaved_snap(&mut r, &live);
                    (pre, snap)
                }
                "dedup" => {
                    let (a, b, ea, eb) = (1 + r.usize(4), 1 + r.usize(5), r.usize(3), 1 + r.usize(5));
                    (gen_dedup_program(&mut r, a, ea), gen_dedup_program(&mut r, b, eb))
                }
                _ => {
                    let (a, b) = (2 + r.usize(8), 3 + r.usize(10));
                    (gen_program(&mut r, a, true), gen_program(&mut r, b, false))
                }
            };
            let keys: Vec<String> = if family == "hole" {
                match r.usize(8) {
                    0 => vec![],
                    1 => vec!["name".into(), "code".into()],
                    _ => vec!["name".into()],
                }
            } else {
                match r.usize(5) {
                    0 => vec![],
                    1 => vec!["name".into(), "code".into()],
                    2 => vec!["code".into()],
                    _ => vec!["name".into()],
                }
            };
            // mutations: sizes come from the real export of this snapshot
            let b = build(&snap);
            let mut bytes = vec![];
            if export_tenant(&b.store, &mut bytes).is_err() {
                continue;
            }
            let text_len = gunzip(&bytes).map(|t| t.len()).unwrap_or(0);
            let n_lines = gunzip(&bytes).map(|t| t.lines().count()).unwrap_or(1);
            let mut muts = vec![Mutation::None, Mutation::Dangling];
            // a failure planted at every record boundary
            for k in 0..n_lines.saturating_sub(1) {
                muts.push(Mutation::CutAfterLine(k));
            }
            if args.thorough() {
                for k in 0..bytes.len() {
                    muts.push(Mutation::TruncGz(k));
                }
                for k in (0..text_len).step_by(3) {
                    muts.push(Mutation::TruncText(k));
                }
            } else {
                let step = (bytes.len() / 8).max(1);
                for k in (0..bytes.len()).step_by(step) {
                    muts.push(Mutation::TruncGz(k));
                }
                for k in bytes.len().saturating_sub(6)..bytes.len() {
                    muts.push(Mutation::TruncGz(k));
                }
                for _ in 0..4 {
                    muts.push(Mutation::TruncText(r.usize(text_len.max(1))));
                }
            }
            let n_flip = if args.thorough() { 24 } else { 2 };
            for _ in 0..n_flip {
                muts.push(Mutation::FlipGz(r.usize(bytes.len().max(1)), 1 << r.usize(8)));
                muts.push(Mutation::FlipText(r.usize(text_len.max(1)), 1 << r.usize(7)));
            }
            for k in 0..n_lines.saturating_sub(1).min(if args.thorough() { 12 } else { 2 }) {
                muts.push(Mutation::DropLine(k));
            }
            for m in muts {
                cases.push(Case { pre: pre.clone(), snap: snap.clone(), keys: keys.clone(), mutation: m });
            }
        }
    }

    let outcomes: Vec<Outcome> = {
        let n_threads = 8;
        let chunk = ((cases.len() + n_threads - 1) / n_threads).max(1);
        let mut out: Vec<Vec<Outcome>> = vec![];
        std::thread::scope(|sc| {
            let hs: Vec<_> = cases.chunks(chunk).map(|c| sc.spawn(move || c.iter().map(run_case).collect::<Vec<_>>())).collect();
            for h in hs {
                out.push(h.join().expect("worker"));
            }
        });
        out.into_iter().flatten().collect()
    };

    let mut lines = vec![];
    for o in &outcomes {
        if o.skipped.is_some() {
            lines.push("noop".to_string());
            lines.push("noop".to_string());
        } else {
            lines.push(format!("imp {}", o.req));
            lines.push(format!("spec-imp {} {} {}", o.req, if o.ok { "ok" } else { "err" }, o.post));
        }
    }
    let replies = driver::par_batch(&exe, &lines, 12);

    let mut first_break: Option<String> = None;
    for (k, o) in outcomes.iter().enumerate() {
        let kind = cases[k].mutation.clone();
        let kind_name = render_mut(&kind).split(':').next().unwrap_or("").to_string();
        if let Some(why) = o.skipped {
            rep.count(&format!("skipped:{}", why));
            if why == "panic" {
                rep.spec_violation(&known, "panic", &format!("panic in import: {:?} on `{}`", o.err, o.case_txt), &o.case_txt);
            }
            continue;
        }
        let m = &replies[2 * k];
        let s = &replies[2 * k + 1];
        let merged: u64 = m.rsplit("merged=").next().and_then(|x| x.parse().ok()).unwrap_or(0);
        let m_main = m.rsplitn(2, " merged=").last().unwrap_or("").to_string();
        let nt = o.feat.rels > 0 && o.feat.edgy_string && o.feat.nonscalar && !o.ok && merged > 0;
        rep.case(&o.case_txt, nt);
        rep.count(&format!("mutation:{}", kind_name));
        rep.count(if o.ok { "result:ok" } else { "result:err" });
        if !o.ok && merged > 0 {
            rep.count("failed-after-merge");
            if o.reuses_low_id {
                rep.count("failed-after-merge:store-reuses-freed-low-id");
            }
        }
        if o.reuses_low_id {
            rep.count("pre-store:next-id-is-a-freed-low-id");
        }
        if cases[k].pre.iter().any(|op| matches!(op, Op::DelNode(_))) {
            rep.count("pre-store:has-deletions");
        }
        if o.ok && merged > 0 {
            rep.count("ok-with-merge");
        }
        if let Some(e) = &o.err {
            let class = if e.contains("unknown") {
                "dangling-edge"
            } else if e.contains("EOF") || e.contains("eof") {
                "eof"
            } else if e.contains("corrupt") || e.contains("invalid") || e.contains("checksum") {
                "gzip-corrupt"
            } else if e.contains("line") || e.contains("expected") || e.contains("missing") {
                "json"
            } else {
                "other"
            };
            rep.count(&format!("error:{}", class));
        }
        if nt && rep.samples.len() < 3 {
            rep.sample(json!({"case": o.case_txt, "impl": o.real, "error": o.err}));
        }
        let body = format!("{}\nrequest {}\nimpl  {}\nmodel {}\nspec  {}\nerror {:?}", o.case_txt, o.req, o.real, m, s, o.err);
        // verbatim checks the model has no place for: row/column placement, incoming adjacency
        // and the store's counters must be exactly as before after an Err; and the store must be
        // self-consistent (incoming == outgoing, counters == enumerated) after any import
        if s == "ok" && (o.raw_changed || o.inconsistent) {
            let sig = if o.raw_changed { "failed-import:raw-dump-changed" } else { "import:adjacency-or-counters-inconsistent" };
            rep.count(&format!("spec_violation:{}", sig));
            rep.spec_violation(
                &known,
                sig,
                &format!("{} on `{}`", if o.raw_changed { "a failed import changed the verbatim dump (row/column placement, incoming adjacency or counters)" } else { "incoming and outgoing adjacency, or node_count()/edge_count(), disagree after the import" }, o.case_txt),
                &body,
            );
            continue;
        }
        if s != "ok" {
            let sig = if !o.ok {
                if o.diff.is_empty() { "failed-import:label-index".to_string() } else { format!("failed-import:{}", o.diff) }
            } else {
                format!("ok-import:{}", s.trim_start_matches("viol ").replace(|c: char| c.is_ascii_digit(), ""))
            };
            rep.count(&format!("spec_violation:{}", sig));
            rep.spec_violation(&known, &sig, &format!("import atomicity violated ({}) on `{}`", s, o.case_txt), &body);
            continue;
        }
        let canon = |x: &str| {
            let mut it = x.splitn(3, ' ');
            let (st, dump, stats) = (it.next().unwrap_or(""), it.next().unwrap_or(""), it.next().unwrap_or(""));
            format!("{} {} {}", st, comparable(dump), stats)
        };
        if canon(&m_main) != canon(&o.real) {
            rep.count("model_mismatch");
            if first_break.is_none() {
                first_break = Some(body);
            }
        }
    }
    if let Some(body) = first_break {
        if rep.spec_violations.is_empty() {
            rep.correspondence_break(
                "SgModel.SnapJson.importLines = import_tenant_with_dedup (result, store dump, stats)",
                "model and implementation differ although the specification holds on every explored case",
                &body,
            );
        }
    }
    rep.write(&args.out);
}
