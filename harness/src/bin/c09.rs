//! C09 — MVCC transactions: real `GraphStore::{begin_transaction, txn_write_*, commit_transaction,
//! abort_transaction, gc_auto, get_*_for_txn}` vs the Lean model `SgModel.Txn` (machine I),
//! and the abstract first-committer-wins machine S evaluated on the implementation's
//! observations.
use samyama::graph::{EdgeId, GraphError, GraphStore, IsolationLevel, NodeId};
use serde_json::json;
use std::collections::BTreeSet;
use vharness::{driver, Args, Known, Report, Rng};

#[derive(Clone, Debug, PartialEq)]
enum Op {
    Begin(bool), // true = SnapshotIsolation
    WriteNode(u64, u64),
    WriteEdge(u64, u64),
    Commit(u64),
    Abort(u64),
    Bump,
    GcAuto,
}

fn render1(op: &Op) -> String {
    match op {
        Op::Begin(true) => "b:si".into(),
        Op::Begin(false) => "b:rc".into(),
        Op::WriteNode(t, n) => format!("wn:{}.{}", t, n),
        Op::WriteEdge(t, e) => format!("we:{}.{}", t, e),
        Op::Commit(t) => format!("c:{}", t),
        Op::Abort(t) => format!("a:{}", t),
        Op::Bump => "u".into(),
        Op::GcAuto => "g:auto".into(),
    }
}
fn render(ops: &[Op]) -> String {
    ops.iter().map(render1).collect::<Vec<_>>().join(";")
}
fn parse(s: &str) -> Option<Vec<Op>> {
    let mut ops = vec![];
    for p in s.split(';') {
        let mut it = p.split(':');
        let k = it.next()?;
        let rest = it.next();
        let pair = |r: Option<&str>| -> Option<(u64, u64)> {
            let (a, b) = r?.split_once('.')?;
            Some((a.parse().ok()?, b.parse().ok()?))
        };
        ops.push(match (k, rest) {
            ("b", Some("si")) => Op::Begin(true),
            ("b", Some("rc")) => Op::Begin(false),
            ("wn", r) => {
                let (t, n) = pair(r)?;
                Op::WriteNode(t, n)
            }
            ("we", r) => {
                let (t, e) = pair(r)?;
                Op::WriteEdge(t, e)
            }
            ("c", Some(t)) => Op::Commit(t.parse().ok()?),
            ("a", Some(t)) => Op::Abort(t.parse().ok()?),
            ("u", None) => Op::Bump,
            ("g", Some("auto")) => Op::GcAuto,
            _ => return None,
        });
    }
    Some(ops)
}

const PROBE_TXNS: u64 = 4;

/// Run the real store.  Two probe entities (a node and a relationship) get one version per
/// value of `current_version`, so the `version` field of what `get_*_for_txn` returns *is* the
/// version the transaction read at.
fn run_real(ops: &[Op], differ: &mut u64) -> String {
    let mut st = GraphStore::new();
    let pn = st.create_node("Probe");
    let pm = st.create_node("Probe");
    let pe = st.create_edge(pn, pm, "PROBE").expect("probe edge");
    let stampit = |st: &mut GraphStore| {
        let v = st.current_version as i64;
        st.set_node_property("default", pn, "stamp", v).expect("probe node write");
        st.set_edge_property(pe, "stamp", v).expect("probe edge write");
    };
    stampit(&mut st);
    let mut obs = vec![];
    for op in ops {
        let before = st.current_version;
        let out = match op {
            Op::Begin(si) => {
                let id = st.begin_transaction(if *si {
                    IsolationLevel::SnapshotIsolation
                } else {
                    IsolationLevel::ReadCommitted
                });
                format!("B{}", id)
            }
            Op::WriteNode(t, n) => {
                st.txn_write_node(*t, NodeId::new(*n));
                "U".into()
            }
            Op::WriteEdge(t, e) => {
                st.txn_write_edge(*t, EdgeId::new(*e));
                "U".into()
            }
            Op::Commit(t) => match st.commit_transaction(*t) {
                Ok(v) => format!("C{}", v),
                Err(GraphError::WriteConflict(_)) => "X".into(),
                Err(GraphError::TransactionNotFound(_)) => "NF".into(),
                Err(GraphError::TransactionNotActive(_)) => "NA".into(),
                Err(e) => format!("E?{:?}", e).replace([' ', ';', '|'], "_"),
            },
            Op::Abort(t) => match st.abort_transaction(*t) {
                Ok(()) => "AB".into(),
                Err(GraphError::TransactionNotFound(_)) => "NF".into(),
                Err(GraphError::TransactionNotActive(_)) => "NA".into(),
                Err(e) => format!("E?{:?}", e).replace([' ', ';', '|'], "_"),
            },
            Op::Bump => {
                st.current_version += 1;
                "U".into()
            }
            Op::GcAuto => {
                st.gc_auto();
                "U".into()
            }
        };
        if st.current_version != before {
            stampit(&mut st);
        }
        let mut reads = vec![];
        for t in 1..=PROBE_TXNS {
            let rn = st.get_node_for_txn(t, pn).map(|n| n.version);
            let re = st.get_edge_for_txn(t, pe).map(|e| e.version);
            if rn != re {
                *differ += 1;
                reads.push(format!("{:?}/{:?}", rn, re).replace([' ', ';', '|', ','], "_"));
            } else {
                reads.push(match rn {
                    Some(v) => v.to_string(),
                    None => "_".into(),
                });
            }
        }
        obs.push(format!("{}|{}|{}", out, st.current_version, reads.join(",")));
    }
    obs.join(";")
}

/// Appendix B: at least two transactions overlap in time and their write sets intersect.
fn nontrivial(ops: &[Op]) -> bool {
    // (begin position, finish position or len, writes)
    let mut txs: Vec<(usize, usize, BTreeSet<(bool, u64)>, bool)> = vec![];
    for (k, op) in ops.iter().enumerate() {
        match op {
            Op::Begin(_) => txs.push((k, ops.len(), BTreeSet::new(), false)),
            Op::WriteNode(t, n) => {
                if let Some(x) = txs.get_mut((*t as usize).wrapping_sub(1)) {
                    if !x.3 {
                        x.2.insert((false, *n));
                    }
                }
            }
            Op::WriteEdge(t, e) => {
                if let Some(x) = txs.get_mut((*t as usize).wrapping_sub(1)) {
                    if !x.3 {
                        x.2.insert((true, *e));
                    }
                }
            }
            Op::Commit(t) | Op::Abort(t) => {
                if let Some(x) = txs.get_mut((*t as usize).wrapping_sub(1)) {
                    if !x.3 {
                        x.3 = true;
                        x.1 = k;
                    }
                }
            }
            _ => {}
        }
    }
    for i in 0..txs.len() {
        for j in i + 1..txs.len() {
            let (a, b) = (&txs[i], &txs[j]);
            if b.0 < a.1 && a.0 < b.1 && a.2.intersection(&b.2).next().is_some() {
                return true;
            }
        }
    }
    false
}

/// Every schedule in which `n` transactions each run `begin; write*; (commit|abort)`, ids in
/// begin order, each write one of `ents`, interleaved in every possible way.
fn interleavings(n: usize, writes: usize, ents: &[(bool, u64)], isos: &[bool], out: &mut Vec<Vec<Op>>) {
    // stage per txn: 0 = not begun, 1..=writes = number of writes done + 1, writes+2 = finished
    fn go(
        n: usize,
        writes: usize,
        ents: &[(bool, u64)],
        isos: &[bool],
        stage: &mut Vec<usize>,
        cur: &mut Vec<Op>,
        out: &mut Vec<Vec<Op>>,
    ) {
        if stage.iter().all(|s| *s == writes + 2) {
            out.push(cur.clone());
            return;
        }
        let begun = stage.iter().filter(|s| **s > 0).count();
        if begun < n {
            // the next transaction to begin gets id begun+1
            stage[begun] = 1;
            cur.push(Op::Begin(isos[begun % isos.len()]));
            go(n, writes, ents, isos, stage, cur, out);
            cur.pop();
            stage[begun] = 0;
        }
        for t in 0..begun {
            let s = stage[t];
            if s >= 1 && s <= writes {
                for (is_edge, id) in ents {
                    stage[t] = s + 1;
                    cur.push(if *is_edge {
                        Op::WriteEdge(t as u64 + 1, *id)
                    } else {
                        Op::WriteNode(t as u64 + 1, *id)
                    });
                    go(n, writes, ents, isos, stage, cur, out);
                    cur.pop();
                    stage[t] = s;
                }
            } else if s == writes + 1 {
                for fin in [Op::Commit(t as u64 + 1), Op::Abort(t as u64 + 1)] {
                    stage[t] = s + 1;
                    cur.push(fin);
                    go(n, writes, ents, isos, stage, cur, out);
                    cur.pop();
                    stage[t] = s;
                }
            }
        }
    }
    let mut stage = vec![0; n];
    go(n, writes, ents, isos, &mut stage, &mut vec![], out);
}

/// every sequence of length `len` over the whole alphabet, with transaction handles limited
/// to the ones begun so far plus one unknown id
fn all_seqs(len: usize, max_txn: u64, ents: &[(bool, u64)], out: &mut Vec<Vec<Op>>) {
    fn go(len: usize, max_txn: u64, ents: &[(bool, u64)], begun: u64, cur: &mut Vec<Op>, out: &mut Vec<Vec<Op>>) {
        if cur.len() == len {
            out.push(cur.clone());
            return;
        }
        let mut letters = vec![Op::Bump, Op::GcAuto];
        if begun < max_txn {
            letters.push(Op::Begin(true));
            letters.push(Op::Begin(false));
        }
        for t in 1..=(begun + 1).min(max_txn) {
            letters.push(Op::Commit(t));
            letters.push(Op::Abort(t));
            if t <= begun {
                for (is_edge, id) in ents {
                    letters.push(if *is_edge { Op::WriteEdge(t, *id) } else { Op::WriteNode(t, *id) });
                }
            }
        }
        for l in letters {
            let b = if matches!(l, Op::Begin(_)) { begun + 1 } else { begun };
            cur.push(l);
            go(len, max_txn, ents, b, cur, out);
            cur.pop();
        }
    }
    go(len, max_txn, ents, 0, &mut vec![], out);
}

/// `op` inserted at every position of every schedule (gc_auto dropping finished transactions /
/// a version bump between any two steps of a conflict).
fn with_inserted(base: &[Vec<Op>], op: &Op, out: &mut Vec<Vec<Op>>) {
    for b in base {
        for pos in 0..=b.len() {
            let mut s = b[..pos].to_vec();
            s.push(op.clone());
            s.extend(b[pos..].iter().cloned());
            out.push(s);
        }
    }
}

fn permutations(k: usize) -> Vec<Vec<usize>> {
    fn go(k: usize, cur: &mut Vec<usize>, out: &mut Vec<Vec<usize>>) {
        if cur.len() == k {
            out.push(cur.clone());
            return;
        }
        for i in 0..k {
            if !cur.contains(&i) {
                cur.push(i);
                go(k, cur, out);
                cur.pop();
            }
        }
    }
    let mut out = vec![];
    go(k, &mut vec![], &mut out);
    out
}

/// `k` transactions (k = 4, 5): all begun up front or each just before its write; write sets by
/// pattern (all the same entity / alternating two entities / a node and the relationship with
/// the same number); finished in every order, every commit|abort mask; isolation by pattern.
fn many_txns(k: usize, sample: u64, seed: u64, out: &mut Vec<Vec<Op>>) {
    let w = |t: u64, e: (bool, u64)| if e.0 { Op::WriteEdge(t, e.1) } else { Op::WriteNode(t, e.1) };
    let patterns: Vec<Vec<(bool, u64)>> = vec![
        vec![(false, 1)],
        vec![(true, 1)],
        vec![(false, 1), (false, 2)],
        vec![(false, 1), (true, 1)],
        vec![(true, 1), (true, 2)],
    ];
    let mut idx = 0u64;
    for perm in permutations(k) {
        for mask in 0..(1u32 << k) {
            for (pi, pat) in patterns.iter().enumerate() {
                for upfront in [true, false] {
                    idx += 1;
                    if sample > 1 && (idx + seed) % sample != 0 {
                        continue;
                    }
                    let iso = |i: usize| (i + pi) % 2 == 0;
                    let mut s = vec![];
                    if upfront {
                        for i in 0..k {
                            s.push(Op::Begin(iso(i)));
                        }
                        for i in 0..k {
                            s.push(w(i as u64 + 1, pat[i % pat.len()]));
                        }
                        for &i in &perm {
                            s.push(if mask >> i & 1 == 1 { Op::Commit(i as u64 + 1) } else { Op::Abort(i as u64 + 1) });
                        }
                    } else {
                        // staggered: transaction j (in finishing order) begins and writes, the one
                        // before it in finishing order finishes afterwards -> every neighbour overlaps
                        // ids are given in begin order = finishing order here
                        for (j, &i) in perm.iter().enumerate() {
                            s.push(Op::Begin(iso(i)));
                            s.push(w(j as u64 + 1, pat[i % pat.len()]));
                            if j > 0 {
                                let prev = perm[j - 1];
                                s.push(if mask >> prev & 1 == 1 { Op::Commit(j as u64) } else { Op::Abort(j as u64) });
                            }
                        }
                        let last = perm[k - 1];
                        s.push(if mask >> last & 1 == 1 { Op::Commit(k as u64) } else { Op::Abort(k as u64) });
                    }
                    out.push(s);
                }
            }
        }
    }
}

fn random_case(rng: &mut Rng, ents: &[(bool, u64)]) -> Vec<Op> {
    let len = 10 + rng.usize(30);
    let mut ops = vec![];
    let mut begun = 0u64;
    for _ in 0..len {
        let r = rng.below(100);
        let t = if begun == 0 { 1 } else { 1 + rng.below(begun + 1) };
        ops.push(if r < 18 || begun == 0 {
            begun += 1;
            Op::Begin(rng.chance(1, 2))
        } else if r < 55 {
            let (is_edge, id) = *rng.pick(ents);
            if is_edge {
                Op::WriteEdge(t, id)
            } else {
                Op::WriteNode(t, id)
            }
        } else if r < 78 {
            Op::Commit(t)
        } else if r < 86 {
            Op::Abort(t)
        } else if r < 93 {
            Op::Bump
        } else {
            Op::GcAuto
        });
    }
    ops
}

fn main() {
    let args = Args::parse();
    let known = Known::load(&args.known, "C09");
    let mut rep = Report::new(
        "C09",
        "schedules over begin(RC|SI)/txn_write_node/txn_write_edge/commit/abort/version bump/gc_auto; every interleaving of \
         2-3 transactions with write sets over 3 entities, every short sequence over the whole alphabet, then PRNG schedules; \
         non-trivial = at least two transactions overlap in time and their write sets intersect; distinct = distinct rendered schedule",
        &args.replays,
        args.seed,
    );
    let exe = args.driver_exe("drv_txn");
    // node 1, node 2 and relationship 1 (same number as node 1: the two id spaces must not mix)
    let ents: Vec<(bool, u64)> = vec![(false, 1), (false, 2), (true, 1)];

    let mut seqs: Vec<Vec<Op>> = vec![];
    let mut n_corpus = 0;
    let mut files: Vec<std::path::PathBuf> = vec![];
    if let Some(r) = &args.replay {
        files.push(r.clone());
    } else if let Ok(rd) = std::fs::read_dir(args.corpus.join("C09")) {
        files = rd.filter_map(|e| e.ok().map(|e| e.path())).collect();
        files.sort();
    }
    for f in &files {
        for line in std::fs::read_to_string(f).unwrap_or_default().lines() {
            let line = line.trim();
            if line.is_empty() || line.starts_with('#') {
                continue;
            }
            if let Some(ops_txt) = line.strip_prefix("ops ") {
                if let Some(ops) = parse(ops_txt) {
                    seqs.push(ops);
                    n_corpus += 1;
                }
            }
        }
    }
    rep.count_n("corpus_sequences", n_corpus);

    if args.replay.is_none() {
        let before = seqs.len();
        // 3 transactions x (begin, 1 write, finish): all interleavings, all write choices, commit|abort
        interleavings(3, 1, &ents, &[true, false, true], &mut seqs);
        // 2 transactions x (begin, 2 writes, finish)
        interleavings(2, 2, &ents, &[true, false], &mut seqs);
        if args.thorough() {
            interleavings(3, 1, &ents, &[false, true, false], &mut seqs);
            interleavings(2, 2, &ents, &[false, true], &mut seqs);
            // 3 transactions, the first with two writes are covered by PRNG; all short sequences:
            all_seqs(6, 3, &ents[..2], &mut seqs);
        } else {
            all_seqs(5, 3, &ents[..2], &mut seqs);
        }
        all_seqs(4, 3, &ents, &mut seqs);
        let n_core = seqs.len() - before;
        // --- self-review families ---
        // (a) two relationships / two nodes, every pair of isolation levels
        let ents4: Vec<(bool, u64)> = vec![(false, 1), (false, 2), (true, 1), (true, 2)];
        let b0 = seqs.len();
        for isos in [[true, true], [true, false], [false, true], [false, false]] {
            interleavings(2, 1, &ents4, &isos, &mut seqs);
        }
        rep.count_n("family:iso_pairs_4_entities", (seqs.len() - b0) as u64);
        // (b) gc_auto (drops finished transactions from the table) and a bump at every position
        let b1 = seqs.len();
        let mut base2: Vec<Vec<Op>> = vec![];
        for isos in [[true, true], [false, true], [true, false]] {
            interleavings(2, 1, &[(false, 1), (true, 1)], &isos, &mut base2);
        }
        with_inserted(&base2, &Op::GcAuto, &mut seqs);
        with_inserted(&base2, &Op::Bump, &mut seqs);
        let mut base3: Vec<Vec<Op>> = vec![];
        interleavings(3, 1, &[(false, 1)], &[true, false, true], &mut base3);
        interleavings(3, 1, &[(true, 1)], &[true, true, false], &mut base3);
        if !args.thorough() {
            // quick tier: a third of the 3-transaction bases, rotating with the seed
            let sd = args.seed as usize;
            base3 = base3.into_iter().enumerate().filter(|(i, _)| (i + sd) % 3 == 0).map(|(_, b)| b).collect();
        }
        with_inserted(&base3, &Op::GcAuto, &mut seqs);
        rep.count_n("family:gc_or_bump_inserted", (seqs.len() - b1) as u64);
        // (c) 4 and 5 transactions
        let b2 = seqs.len();
        many_txns(4, if args.thorough() { 1 } else { 2 }, args.seed, &mut seqs);
        many_txns(5, if args.thorough() { 2 } else { 16 }, args.seed, &mut seqs);
        rep.count_n("family:four_five_txns", (seqs.len() - b2) as u64);
        rep.count_n("family:core", n_core as u64);
        rep.exhaustive = true;
        rep.exhaustive_note = format!(
            "{} schedules: every interleaving of 3 transactions (begin, one write over {{node1,node2,rel1}}, commit|abort) and of 2 \
             transactions with two writes each; every sequence of length 4 (3 entities) and {} (2 entities) over the whole alphabet \
             (handles: begun transactions + one unknown id; bump; gc_auto); every interleaving of 2 transactions with one write over              {{node1,node2,rel1,rel2}} for each of the 4 isolation pairs; gc_auto and a bump inserted at every position of every              2-transaction (and, sampled in the quick tier, 3-transaction) interleaving; 4 and 5 transactions finishing in every order              with every commit|abort mask (5: sampled); plus PRNG schedules (not exhaustive)",
            seqs.len() - before,
            if args.thorough() { 6 } else { 5 }
        );
        let mut rng = Rng::new(args.seed);
        let n_rand = if args.thorough() { 300_000 } else { 30_000 };
        for _ in 0..n_rand {
            seqs.push(random_case(&mut rng, &ents));
        }
    }

    let mut first_break: Option<String> = None;
    for chunk in seqs.chunks(200_000) {
        let rendered: Vec<String> = chunk.iter().map(|s| render(s)).collect();
        let real: Vec<String> = chunk
            .iter()
            .map(|s| {
                match std::panic::catch_unwind(std::panic::AssertUnwindSafe(|| {
                    let mut d = 0u64;
                    let o = run_real(s, &mut d);
                    (o, d)
                })) {
                    Ok((o, d)) => {
                        if d > 0 {
                            rep.count_n("node_edge_read_version_differ", d);
                        }
                        o
                    }
                    Err(_) => "PANIC".to_string(),
                }
            })
            .collect();
        let mut lines = Vec::with_capacity(chunk.len() * 2);
        for (r, o) in rendered.iter().zip(real.iter()) {
            lines.push(format!("run {}", r));
            lines.push(format!("spec {} {}", r, o));
        }
        let replies = driver::par_batch(&exe, &lines, 12);
        for (k, ops) in chunk.iter().enumerate() {
            let m = &replies[2 * k];
            let s = &replies[2 * k + 1];
            let nt = nontrivial(ops);
            rep.case(&rendered[k], nt);
            if nt && rep.samples.len() < 3 {
                rep.sample(json!({"ops": rendered[k], "impl_obs": real[k]}));
            }
            for o in real[k].split(';') {
                let out = o.split('|').next().unwrap_or("");
                let key = match out.chars().next() {
                    Some('B') => "out:began",
                    Some('C') => "out:committed",
                    Some('X') => "out:conflict",
                    Some('U') => "out:unit",
                    Some('N') if out == "NF" => "out:not_found",
                    Some('N') => "out:not_active",
                    Some('A') => "out:aborted",
                    _ => "out:other",
                };
                rep.count(key);
            }
            let body = format!("ops {}\nimpl  {}\nmodel {}\nspec  {}", rendered[k], real[k], m, s);
            if s != "ok" {
                let mut it = s.split(' ');
                let _ = it.next();
                let idx = it.next().and_then(|x| x.parse::<usize>().ok());
                let field = it.next().unwrap_or("?");
                let sig = match idx.and_then(|i| ops.get(i)) {
                    Some(op) => format!(
                        "{}-{}",
                        match op {
                            Op::Begin(_) => "begin",
                            Op::WriteNode(..) | Op::WriteEdge(..) => "write",
                            Op::Commit(_) => "commit",
                            Op::Abort(_) => "abort",
                            Op::Bump => "bump",
                            Op::GcAuto => "gc",
                        },
                        field
                    ),
                    None => "driver-rejected".to_string(),
                };
                rep.count(&format!("spec_violation:{}", sig));
                rep.spec_violation(
                    &known,
                    &sig,
                    &format!("first-committer-wins specification violated at {} on `{}`", s, rendered[k]),
                    &body,
                );
            } else if *m != format!("ok {}", real[k]) {
                rep.count("model_mismatch");
                if first_break.is_none() {
                    first_break = Some(body);
                }
            }
        }
    }
    if let Some(body) = first_break {
        if rep.spec_violations.is_empty() {
            rep.correspondence_break(
                "SgModel.Txn.step = GraphStore::{begin_transaction,txn_write_*,commit_transaction,abort_transaction,gc_auto,get_*_for_txn} (observations)",
                "model and implementation observations differ but the specification holds on all explored cases",
                &body,
            );
        }
    }
    rep.sample(json!({"ops": seqs.last().map(|s| render(s))}));
    rep.write(&args.out);
}
