//! C04 — write statements have exactly their openCypher effect.
//!
//! Random small graphs x random sequences of generated write statements run through the real
//! engine (`parse_query` + `MutQueryExecutor`).  After every statement the returned rows and a
//! full dump (nodes, label sets, typed properties, relationships) are compared with the Lean
//! reference semantics `SgModel.CyW.exec` started from the engine's own pre-statement dump:
//!   R  = engine rows + post dump,
//!   M  = `run`  (model rows + post graph),
//!   S  = `spec` (`specStmt` evaluated on R with the handle renaming found here as certificate).
//! Whether a *failed* statement leaves something behind is C05's subject, not compared here.
#[path = "cyw/mod.rs"]
mod cyw;
use cyw::*;
use samyama::graph::{GraphStore, PropertyValue};
use serde_json::json;
use std::collections::HashMap;
use vharness::{driver, Args, Known, Report, Rng};

const NL: u32 = 3; // labels L0..L2
const NT: u32 = 2; // relationship types T0..T1
const NK: u32 = 3; // property keys k0..k2

fn small_lit(rng: &mut Rng) -> Ex {
    match rng.below(10) {
        0 => Ex::Lit(PropertyValue::String("a".into())),
        1 => Ex::Lit(PropertyValue::String("b'c".into())),
        2 => Ex::Lit(PropertyValue::Boolean(rng.chance(1, 2))),
        _ => int(rng.range(0, 3)),
    }
}

fn lit_props(rng: &mut Rng, max: u64) -> Vec<(u32, Ex)> {
    let mut ps = vec![];
    for k in 0..NK {
        if ps.len() as u64 >= max {
            break;
        }
        if rng.chance(1, 2) {
            ps.push((k, small_lit(rng)));
        }
    }
    ps
}

fn labels(rng: &mut Rng) -> Vec<u32> {
    let a = rng.below(NL as u64) as u32;
    if rng.chance(1, 5) {
        let b = (a + 1) % NL;
        vec![a, b]
    } else {
        vec![a]
    }
}

/// an integer-valued expression over the row variable `v0` (bound by UNWIND to small ints)
fn row_expr(rng: &mut Rng) -> Ex {
    match rng.below(5) {
        0 => Ex::Var(0),
        1 => bin("add", Ex::Var(0), int(rng.range(0, 2))),
        2 => bin("mul", Ex::Var(0), int(rng.range(0, 2))),
        3 => bin("mod", Ex::Var(0), int(2)),
        _ => Ex::Ite(Box::new(bin("gt", Ex::Var(0), int(1))), Box::new(int(7)), Box::new(Ex::Var(0))),
    }
}

/// an expression over the properties of the node/relationship bound to `x`
fn own_expr(rng: &mut Rng, x: u32) -> Ex {
    let k = rng.below(NK as u64) as u32;
    match rng.below(6) {
        0 => Ex::Prop(x, k),
        1 => bin("add", Ex::Prop(x, 0), int(rng.range(0, 2))),
        2 => small_lit(rng),
        3 => Ex::Lit(PropertyValue::Null),
        4 => Ex::Ite(Box::new(Ex::Un("isnull", Box::new(Ex::Prop(x, k)))), Box::new(int(9)), Box::new(Ex::Prop(x, k))),
        _ => Ex::List(vec![int(rng.range(0, 2)), int(1)]),
    }
}

fn lit_map(rng: &mut Rng) -> Ex {
    let mut m = HashMap::new();
    for k in 0..NK {
        if rng.chance(1, 2) {
            let v = match rng.below(5) {
                0 => PropertyValue::Null,
                1 => PropertyValue::String("m".into()),
                _ => PropertyValue::Integer(rng.range(0, 3)),
            };
            m.insert(format!("k{}", k), v);
        }
    }
    Ex::Lit(PropertyValue::Map(m))
}

fn unwind_list(rng: &mut Rng) -> Ex {
    let n = rng.range(0, 4);
    Ex::List((0..n).map(|_| int(rng.range(0, 3))).collect())
}

fn set_items_on(rng: &mut Rng, x: u32, node: bool) -> Vec<SetItem> {
    match rng.below(if node { 6 } else { 4 }) {
        0 | 1 => {
            let n = rng.range(1, 2);
            let mut ks: Vec<u32> = (0..NK).collect();
            let mut items = vec![];
            for _ in 0..n {
                let k = ks.remove(rng.usize(ks.len()));
                items.push(SetItem::Prop(x, k, own_expr(rng, x)));
            }
            items
        }
        2 => vec![SetItem::All(x, lit_map(rng))],
        3 => vec![SetItem::MAdd(x, lit_map(rng))],
        4 => vec![SetItem::Label(x, rng.below(NL as u64) as u32)],
        _ => vec![SetItem::Prop(x, rng.below(NK as u64) as u32, own_expr(rng, x)), SetItem::Label(x, rng.below(NL as u64) as u32)],
    }
}

fn match_node(rng: &mut Rng, x: u32) -> Vec<Cl> {
    let l0 = rng.below(NL as u64) as u32;
    // every fifth MATCH names two labels (either written order)
    let l = if rng.chance(1, 5) { vec![l0, (l0 + 1 + rng.below(2) as u32) % NL] } else { vec![l0] };
    match rng.below(4) {
        0 => vec![Cl::MatchN(x, l, vec![(rng.below(NK as u64) as u32, int(rng.range(0, 3)))])],
        1 => vec![Cl::MatchN(x, l, vec![]), Cl::Filter(bin(*rng.pick(&["eq", "gt", "le"]), Ex::Prop(x, rng.below(NK as u64) as u32), int(rng.range(0, 2))))],
        _ => vec![Cl::MatchN(x, l, vec![])],
    }
}

/// One statement of the supported fragment.  Shapes are restricted to those whose result
/// does not depend on the order in which MATCH produces its rows (see the module docs of
/// `SgModel/Model/CyW.lean`), because the engine scans a hash set.
fn gen_stmt(rng: &mut Rng) -> St {
    let new_node = |rng: &mut Rng, var: Option<u32>, props: Vec<(u32, Ex)>| NPat { var, labels: if rng.chance(1, 8) { vec![] } else { labels(rng) }, props };
    match rng.below(20) {
        // ---- row-less CREATE
        0 | 1 => {
            let a = { let lp = lit_props(rng, 3); new_node(rng, Some(1), lp) };
            let mut cls = vec![];
            if rng.chance(1, 2) {
                let b = { let lp = lit_props(rng, 2); new_node(rng, Some(2), lp) };
                cls.push(Cl::Create(vec![CPath { a, seg: Some((rng.below(NT as u64) as u32, lit_props(rng, 1), rng.chance(1, 2), b)) }]));
            } else if rng.chance(1, 3) {
                let b = { let lp = lit_props(rng, 2); new_node(rng, Some(2), lp) };
                cls.push(Cl::Create(vec![CPath { a, seg: None }, CPath { a: b, seg: None }]));
            } else {
                cls.push(Cl::Create(vec![CPath { a, seg: None }]));
            }
            if rng.chance(1, 4) {
                cls.push(Cl::Set(vec![SetItem::Prop(1, 2, small_lit(rng))]));
            }
            let ret = if rng.chance(1, 3) { Some(vec![Ex::Prop(1, 0), Ex::Prop(1, 2)]) } else { None };
            St { cls, ret }
        }
        // ---- UNWIND ... CREATE
        2 | 3 | 4 => {
            let mut cls = vec![Cl::Unwind(unwind_list(rng), 0)];
            if rng.chance(1, 5) {
                cls.push(Cl::With(vec![], vec![(0, bin("add", Ex::Var(0), int(1)))]));
            }
            let mut props = lit_props(rng, 1);
            props.retain(|(k, _)| *k != 0);
            props.push((0, row_expr(rng)));
            let a = new_node(rng, Some(1), props);
            if rng.chance(1, 3) {
                let b = { let lp = lit_props(rng, 1); new_node(rng, Some(2), lp) };
                let rp = if rng.chance(1, 2) { vec![(1, row_expr(rng))] } else { vec![] };
                cls.push(Cl::Create(vec![CPath { a, seg: Some((rng.below(NT as u64) as u32, rp, rng.chance(1, 2), b)) }]));
            } else {
                cls.push(Cl::Create(vec![CPath { a, seg: None }]));
            }
            if rng.chance(1, 4) {
                cls.push(Cl::Set(vec![SetItem::Prop(1, 2, row_expr(rng))]));
            }
            let ret = if rng.chance(1, 3) { Some(vec![Ex::Var(0), Ex::Prop(1, 0)]) } else { None };
            St { cls, ret }
        }
        // ---- MERGE (row-less / UNWIND / MATCH sourced)
        5 | 6 | 7 | 8 => {
            let src = rng.below(3);
            let mut cls = vec![];
            let key = rng.below(2) as u32;
            let val = match src {
                0 => int(rng.range(0, 2)),
                1 => {
                    cls.push(Cl::Unwind(unwind_list(rng), 0));
                    row_expr(rng)
                }
                _ => {
                    cls.extend(match_node(rng, 3));
                    let nn = Ex::Un("notnull", Box::new(Ex::Prop(3, 0)));
                    // one WHERE per MATCH: conjoin with the filter `match_node` may have added
                    match cls.pop() {
                        Some(Cl::Filter(e)) => cls.push(Cl::Filter(bin("and", e, nn))),
                        Some(other) => {
                            cls.push(other);
                            cls.push(Cl::Filter(nn));
                        }
                        None => {}
                    }
                    Ex::Prop(3, 0)
                }
            };
            let has_oc = rng.chance(1, 2);
            let has_om = rng.chance(1, 2);
            let plain = !has_oc && !has_om;
            // ON MATCH / RETURN must never observe a pattern with several matches: S binds the
            // first one, openCypher all of them, the engine an arbitrary one.  Such statements
            // therefore use the dedicated label L3 with exactly {k0: value}: L3 nodes are only
            // ever made by these MERGEs, so each value has at most one match.
            let p = if plain {
                let mut props = vec![(key, val)];
                if rng.chance(1, 4) {
                    props.push((2, int(rng.range(0, 1))));
                }
                NPat { var: Some(1), labels: labels(rng), props }
            } else {
                NPat { var: Some(1), labels: vec![3], props: vec![(0, val)] }
            };
            let key = if plain { key } else { 0 };
            let const_item = |rng: &mut Rng, k: u32| SetItem::Prop(1, k, int(rng.range(4, 6)));
            let oc = if has_oc { vec![if src == 1 && rng.chance(1, 2) { SetItem::Prop(1, 2, row_expr(rng)) } else { const_item(rng, 2) }] } else { vec![] };
            let om = if has_om { vec![if src == 1 && rng.chance(1, 2) { SetItem::Prop(1, 1, row_expr(rng)) } else { const_item(rng, 1) }] } else { vec![] };
            cls.push(Cl::Merge(p, oc, om));
            let ret = if rng.chance(1, 3) { Some(if src == 1 { vec![Ex::Var(0)] } else if plain { vec![Ex::Prop(1, key)] } else { vec![int(1)] }) } else { None };
            St { cls, ret }
        }
        // ---- MATCH node ... SET / REMOVE / label
        9 | 10 | 11 | 12 => {
            let mut cls = match_node(rng, 1);
            if rng.chance(1, 6) {
                cls.push(Cl::With(vec![1], vec![(4, bin("add", Ex::Prop(1, 0), int(1)))]));
                cls.push(Cl::Set(vec![SetItem::Prop(1, 2, Ex::Var(4))]));
                return St { cls, ret: if rng.chance(1, 2) { Some(vec![Ex::Var(4)]) } else { None } };
            }
            match rng.below(4) {
                0 => cls.push(Cl::Remove(vec![RemItem::Prop(1, rng.below(NK as u64) as u32)])),
                1 => cls.push(Cl::Remove(vec![RemItem::Label(1, rng.below(NL as u64) as u32), RemItem::Prop(1, rng.below(NK as u64) as u32)])),
                _ => cls.push(Cl::Set(set_items_on(rng, 1, true))),
            }
            if rng.chance(1, 6) {
                cls.push(Cl::Remove(vec![RemItem::Prop(1, rng.below(NK as u64) as u32)]));
            }
            let ret = if rng.chance(1, 3) { Some(vec![Ex::Prop(1, 0), Ex::Prop(1, 1), Ex::Prop(1, 2)]) } else { None };
            St { cls, ret }
        }
        // ---- MATCH node ... DELETE / DETACH DELETE
        13 | 14 => {
            let mut cls = match_node(rng, 1);
            cls.push(Cl::Delete(rng.chance(1, 2), vec![1]));
            St { cls, ret: if rng.chance(1, 4) { Some(vec![int(1)]) } else { None } }
        }
        // ---- MATCH node ... CREATE from the row
        15 | 16 => {
            let mut cls = match_node(rng, 1);
            if rng.chance(1, 4) {
                cls.push(Cl::Unwind(unwind_list(rng), 0));
            }
            let b = NPat { var: Some(2), labels: labels(rng), props: vec![(0, Ex::Prop(1, 0))] };
            if rng.chance(1, 2) {
                cls.push(Cl::Create(vec![CPath { a: NPat { var: Some(1), labels: vec![], props: vec![] }, seg: Some((rng.below(NT as u64) as u32, if rng.chance(1, 2) { vec![(0, Ex::Prop(1, 1))] } else { vec![] }, rng.chance(1, 2), b)) }]));
            } else {
                cls.push(Cl::Create(vec![CPath { a: b, seg: None }]));
            }
            St { cls, ret: if rng.chance(1, 4) { Some(vec![Ex::Prop(1, 0), Ex::Prop(2, 0)]) } else { None } }
        }
        // ---- MATCH relationship ...
        17 | 18 => {
            let mut cls = vec![Cl::MatchR(1, vec![rng.below(NL as u64) as u32], 2, rng.below(NT as u64) as u32, 3, if rng.chance(1, 2) { vec![] } else { vec![rng.below(NL as u64) as u32] })];
            match rng.below(7) {
                0 => cls.push(Cl::Set(vec![SetItem::Prop(2, rng.below(NK as u64) as u32, bin("add", Ex::Prop(1, 0), Ex::Prop(3, 0)))])),
                1 => cls.push(Cl::Set(set_items_on(rng, 2, false))),
                2 => cls.push(Cl::Remove(vec![RemItem::Prop(2, rng.below(NK as u64) as u32)])),
                3 => cls.push(Cl::Delete(false, vec![2])),
                4 => cls.push(Cl::Delete(false, if rng.chance(1, 2) { vec![2, 1] } else { vec![1, 2] })),
                5 => cls.push(Cl::Delete(true, vec![if rng.chance(1, 2) { 1 } else { 3 }])),
                _ => cls.push(Cl::Set(vec![SetItem::Prop(3, 2, int(rng.range(0, 2)))])),
            }
            St { cls, ret: if rng.chance(1, 4) { Some(vec![int(2)]) } else { None } }
        }
        // ---- read-only statement (the graph must not change)
        _ => {
            let mut cls = match_node(rng, 1);
            if rng.chance(1, 3) {
                cls.push(Cl::Unwind(unwind_list(rng), 0));
                return St { cls, ret: Some(vec![Ex::Prop(1, 0), Ex::Var(0)]) };
            }
            St { cls, ret: Some(vec![Ex::Prop(1, 0), bin("add", Ex::Prop(1, 0), int(1))]) }
        }
    }
}

/// CREATE-only statement with ONE comma-free path of 1-3 relationships in which a freshly declared variable
/// recurs at a later position of the same path (cycle, self-loop, mid-path repeat): exactly one node per distinct
/// variable, relationships between the bound nodes.  (Class of the seeded change C04-d.)
fn gen_chain_stmt(rng: &mut Rng) -> St {
    let len = 1 + rng.usize(3);
    // which variable stands at each position: a repeat of an earlier one with probability 1/2 (at least one repeat)
    let mut vars: Vec<u32> = vec![1];
    let mut next = 2u32;
    for _ in 0..len {
        if rng.chance(1, 2) {
            vars.push(vars[rng.usize(vars.len())]);
        } else {
            vars.push(next);
            next += 1;
        }
    }
    if (1..vars.len()).all(|i| !vars[..i].contains(&vars[i])) {
        let last = vars.len() - 1;
        vars[last] = vars[rng.usize(last)];
    }
    let mut seen: Vec<u32> = vec![];
    let nodes: Vec<NPat> = vars
        .iter()
        .map(|v| {
            if seen.contains(v) {
                NPat { var: Some(*v), labels: vec![], props: vec![] }
            } else {
                seen.push(*v);
                NPat { var: Some(*v), labels: if rng.chance(1, 6) { vec![] } else { labels(rng) }, props: vec![(0, int(*v as i64 * 10 + rng.range(0, 3)))] }
            }
        })
        .collect();
    let rels: Vec<(u32, Vec<(u32, Ex)>, bool)> = (0..len).map(|_| (rng.below(NT as u64) as u32, if rng.chance(1, 2) { vec![(0, int(rng.range(1, 5)))] } else { vec![] }, rng.chance(3, 4))).collect();
    let ret = match rng.below(3) {
        0 => None,
        1 => Some(seen.iter().map(|v| Ex::Prop(*v, 0)).collect()),
        _ => Some(seen.iter().map(|v| Ex::Var(*v)).collect()),
    };
    St { cls: vec![Cl::CreateChain(nodes, rels)], ret }
}

/// statements that exhibit defects of the engine which are recorded as known findings
fn gen_known(rng: &mut Rng) -> St {
    match rng.below(4) {
        0 => St {
            cls: vec![Cl::MatchN(1, vec![rng.below(NL as u64) as u32], vec![]), Cl::Set(vec![SetItem::Prop(1, 1, int(5))]), Cl::Set(vec![SetItem::Prop(1, 2, bin("add", Ex::Prop(1, 1), int(1)))])],
            ret: None,
        },
        1 => St {
            cls: vec![Cl::Unwind(Ex::List(vec![int(1), int(2)]), 0), Cl::Merge(NPat { var: Some(1), labels: vec![rng.below(NL as u64) as u32], props: vec![(0, Ex::Var(0))] }, vec![], vec![]), Cl::Set(vec![SetItem::Prop(1, 2, bin("add", Ex::Var(0), int(5)))])],
            ret: None,
        },
        2 => St {
            cls: vec![Cl::Create(vec![CPath { a: NPat { var: Some(1), labels: vec![0], props: vec![] }, seg: Some((0, vec![(0, bin("add", int(1), int(1)))], true, NPat { var: Some(2), labels: vec![1], props: vec![] })) }])],
            ret: None,
        },
        _ => St { cls: vec![Cl::Merge(NPat { var: Some(1), labels: vec![], props: vec![(0, int(rng.range(0, 1)))] }, vec![], vec![])], ret: None },
    }
}

/// structural class of a statement on which S and the engine disagree
fn signature(st: &St) -> String {
    let n_set = st.cls.iter().filter(|c| matches!(c, Cl::Set(_))).count();
    let has_source = st.cls.iter().any(|c| matches!(c, Cl::Unwind(..) | Cl::MatchN(..) | Cl::MatchR(..)));
    let merge_at = st.cls.iter().position(|c| matches!(c, Cl::Merge(..)));
    if n_set >= 2 {
        return "set-after-set-reads-stale".into();
    }
    if let Some(i) = merge_at {
        if has_source && matches!(st.cls.get(i + 1), Some(Cl::Set(_))) {
            return "merge-with-input-then-set-dropped".into();
        }
        if let Cl::Merge(p, ..) = &st.cls[i] {
            if p.labels.is_empty() {
                return "merge-unlabelled-never-matches".into();
            }
        }
    }
    if !has_source {
        if let Some(Cl::Create(paths)) = st.cls.first() {
            if paths.iter().any(|p| p.seg.as_ref().map_or(false, |s| s.1.iter().any(|(_, e)| !e.is_lit()))) {
                return "create-rel-prop-expr-dropped".into();
            }
        }
    }
    let del = st.cls.iter().find_map(|c| if let Cl::Delete(d, xs) = c { Some((*d, xs.len())) } else { None });
    match del {
        Some((false, _)) => "plain-delete-connected".into(),
        _ => format!("stmt:{}", st.kinds()),
    }
}

// ---------------------------------------------------------------------------------------
// Label-set scenarios: multi-label patterns (2-3 labels, every written order) in MERGE,
// MATCH sources, CREATE and SET / REMOVE label, on stores whose label populations are
// deliberately unequal and overlapping: a broad label with several nodes, a narrow one with
// one or two, and nodes carrying a strict subset of a pattern's labels with the same
// properties.  (Class of the seeded change C04-a: a MERGE that checks only some labels.)
// ---------------------------------------------------------------------------------------

fn shuffled(rng: &mut Rng, mut v: Vec<u32>) -> Vec<u32> {
    for i in (1..v.len()).rev() {
        let j = rng.usize(i + 1);
        v.swap(i, j);
    }
    v
}

/// number of nodes of `g` that carry every label of `ls` and `k0 = id`
fn count_matches(g: &DumpG, ls: &[u32], id: i64) -> usize {
    g.nodes
        .iter()
        .filter(|(_, lt, ps)| {
            let have: Vec<&str> = lt.split('.').collect();
            ls.iter().all(|l| have.contains(&l.to_string().as_str())) && ps.split(',').any(|p| p == format!("0=I{}", id))
        })
        .count()
}

const IDS: [i64; 5] = [1, 7, 8, 9, 5];

fn label_subset(rng: &mut Rng, min: usize) -> Vec<u32> {
    let all = shuffled(rng, vec![0, 1, 2]);
    let n = (min + rng.usize(4 - min)).min(3);
    all[..n].to_vec()
}

fn gen_label_stmt(rng: &mut Rng, pre: &DumpG) -> St {
    let id = *rng.pick(&IDS);
    match rng.below(12) {
        // MERGE of a multi-label node pattern, row-less or UNWIND-driven, ON CREATE / ON MATCH
        0 | 1 | 2 | 3 => {
            let min = if rng.chance(1, 6) { 1 } else { 2 };
            let ls = label_subset(rng, min);
            let unwind = rng.chance(1, 3);
            let ids: Vec<i64> = if unwind { (0..rng.range(1, 3)).map(|_| *rng.pick(&IDS)).collect() } else { vec![id] };
            let risky = ids.iter().any(|i| count_matches(pre, &ls, *i) >= 2);
            let oc = if rng.chance(2, 3) { vec![SetItem::Prop(1, 1, int(rng.range(10, 12)))] } else { vec![] };
            // ON MATCH / RETURN must not observe a pattern with several matches (S binds the
            // first, the engine an arbitrary one)
            let om = if !risky && rng.chance(2, 3) { vec![SetItem::Prop(1, 2, int(rng.range(20, 22)))] } else { vec![] };
            let mut cls = vec![];
            let val = if unwind {
                cls.push(Cl::Unwind(Ex::List(ids.iter().map(|i| int(*i)).collect()), 0));
                Ex::Var(0)
            } else {
                int(id)
            };
            cls.push(Cl::Merge(NPat { var: Some(1), labels: ls, props: vec![(0, val)] }, oc, om));
            let ret = if !risky && rng.chance(1, 3) { Some(vec![Ex::Prop(1, 0)]) } else { None };
            St { cls, ret }
        }
        // MATCH on a multi-label pattern, then a write on the row's node (or a read-only look)
        4 | 5 | 6 => {
            let ls = label_subset(rng, 2);
            let mut cls = vec![Cl::MatchN(1, ls, if rng.chance(1, 3) { vec![(0, int(id))] } else { vec![] })];
            if rng.chance(1, 4) {
                cls.push(Cl::Filter(bin("ge", Ex::Prop(1, 0), int(rng.range(1, 8)))));
            }
            let z = rng.below(3) as u32;
            match rng.below(7) {
                0 => cls.push(Cl::Set(vec![SetItem::Prop(1, 1, int(rng.range(30, 32)))])),
                1 => cls.push(Cl::Set(vec![SetItem::Label(1, z)])),
                2 => cls.push(Cl::Set(vec![SetItem::Label(1, z), SetItem::Label(1, (z + 1) % 3)])),
                3 => cls.push(Cl::Remove(vec![RemItem::Label(1, z)])),
                4 => cls.push(Cl::Remove(vec![RemItem::Label(1, z), RemItem::Label(1, (z + 2) % 3)])),
                5 => cls.push(Cl::Delete(true, vec![1])),
                _ => return St { cls, ret: Some(vec![Ex::Prop(1, 0), Ex::Prop(1, 1), Ex::Prop(1, 2)]) },
            }
            St { cls, ret: if rng.chance(1, 4) { Some(vec![Ex::Prop(1, 0)]) } else { None } }
        }
        // CREATE with several labels (node, or a path between multi-label nodes)
        7 => {
            let a = NPat { var: Some(1), labels: label_subset(rng, 2), props: vec![(0, int(id))] };
            if rng.chance(1, 2) {
                let b = NPat { var: Some(2), labels: label_subset(rng, 1), props: vec![(0, int(*rng.pick(&IDS)))] };
                St { cls: vec![Cl::Create(vec![CPath { a, seg: Some((rng.below(NT as u64) as u32, vec![], rng.chance(1, 2), b)) }])], ret: None }
            } else {
                St { cls: vec![Cl::Create(vec![CPath { a, seg: None }])], ret: None }
            }
        }
        // MATCH multi-label, CREATE a relationship to a new multi-label node
        8 => {
            let b = NPat { var: Some(2), labels: label_subset(rng, 2), props: vec![(0, Ex::Prop(1, 0))] };
            St {
                cls: vec![Cl::MatchN(1, label_subset(rng, 2), vec![]), Cl::Create(vec![CPath { a: NPat { var: Some(1), labels: vec![], props: vec![] }, seg: Some((rng.below(NT as u64) as u32, vec![], true, b)) }])],
                ret: None,
            }
        }
        // single-label MATCH, label surgery
        9 => {
            let x = rng.below(3) as u32;
            let mut cls = vec![Cl::MatchN(1, vec![x], if rng.chance(1, 2) { vec![(0, int(id))] } else { vec![] })];
            if rng.chance(1, 2) {
                cls.push(Cl::Set(vec![SetItem::Label(1, (x + 1) % 3), SetItem::Label(1, (x + 2) % 3)]));
            } else {
                cls.push(Cl::Remove(vec![RemItem::Label(1, (x + 1) % 3)]));
            }
            St { cls, ret: None }
        }
        // MERGE of a relationship pattern between multi-label nodes (whole pattern or nothing)
        _ => {
            let min = if rng.chance(1, 4) { 1 } else { 2 };
            let a = NPat { var: Some(1), labels: label_subset(rng, min), props: vec![(0, int(id))] };
            let b = NPat { var: Some(2), labels: label_subset(rng, 1), props: vec![(0, int(*rng.pick(&IDS)))] };
            St { cls: vec![Cl::MergeRel(a, rng.below(NT as u64) as u32, b)], ret: None }
        }
    }
}

fn run_label_scenario(rng: &mut Rng, cases: &mut Vec<Case>) {
    let perm = shuffled(rng, vec![0, 1, 2]);
    let (a, b, c) = (perm[0], perm[1], perm[2]);
    let node = |rng: &mut Rng, ls: Vec<u32>, id: i64| St { cls: vec![Cl::Create(vec![CPath { a: NPat { var: None, labels: shuffled(rng, ls), props: vec![(0, int(id))] }, seg: None }])], ret: None };
    // broad label `a`: three nodes; narrow label `b`: one node sharing the probe id 7
    let mut setup = vec![node(rng, vec![a], 1), node(rng, vec![a], 2), node(rng, vec![a], 3), node(rng, vec![b], 7)];
    if rng.chance(1, 2) {
        setup.push(node(rng, vec![b], 1));
    }
    for (ls, id) in [(vec![a, c], 7), (vec![b, c], 7), (vec![a, b], 8), (vec![a, b, c], 9), (vec![c], 8), (vec![a], 7)] {
        if rng.chance(1, 3) {
            setup.push(node(rng, ls, id));
        }
    }
    if rng.chance(1, 2) {
        let p = CPath { a: NPat { var: None, labels: shuffled(rng, vec![a, b]), props: vec![(0, int(8))] }, seg: Some((0, vec![], true, NPat { var: None, labels: vec![c], props: vec![(0, int(7))] })) };
        setup.push(St { cls: vec![Cl::Create(vec![p])], ret: None });
    }
    let setup = {
        // random order, so that ids and creation order do not line up with the populations
        let idx = shuffled(rng, (0..setup.len() as u32).collect());
        idx.into_iter().map(|i| setup[i as usize].clone()).collect::<Vec<_>>()
    };
    let mut store = GraphStore::new();
    let mut texts = vec![];
    let n_stmts = 5 + rng.usize(5);
    for k in 0..setup.len() + n_stmts {
        let pre = dump(&store);
        let st = if k < setup.len() { setup[k].clone() } else { gen_label_stmt(rng, &parse_dump(&pre).unwrap_or_default()) };
        let text = st.cypher();
        texts.push(text.clone());
        let o = exec(&mut store, &text, None);
        let post = dump(&store);
        let out = match &o.rows {
            Ok(rows) => Ok(rows_text(rows)),
            Err((k, _)) => Err(k.tag().to_string()),
        };
        cases.push(Case { pre, st, text, out, post, seq_texts: texts.clone() });
    }
}

// ---------------------------------------------------------------------------------------
// Re-evaluation scenarios: a later row must re-evaluate the pattern against the CURRENT
// graph.  Multi-row (UNWIND / MATCH driven) MERGE whose pattern is literal-only and whose
// ON CREATE SET / ON MATCH SET rewrites a key (or is followed by a clause that relabels /
// deletes what the row bound), so that each row's match set differs from the previous
// row's.  The bound node itself is RETURNed per row, so a stale binding shows in the rows
// (handles, compared modulo the renaming certificate) as well as in the graph.
// (Class of the seeded change C04-b: a per-statement cache of the node a MERGE resolved to.)
// ---------------------------------------------------------------------------------------

fn gen_reeval_stmt(rng: &mut Rng) -> St {
    let label = rng.below(2) as u32; // slots live under L0 or L1
    let free = 0i64;
    let taken = 1i64;
    let n_rows = 2 + rng.usize(3);
    let vals: Vec<i64> = shuffled(rng, (10..10 + n_rows as u32).collect()).into_iter().map(|x| x as i64).collect();
    let pat_extra = rng.chance(1, 4);
    let mut props = vec![(0u32, int(free))];
    if pat_extra {
        props.push((2, int(5)));
    }
    let pat = NPat { var: Some(1), labels: if rng.chance(1, 4) { vec![label, 2] } else { vec![label] }, props };
    let take = |owner: bool| {
        let mut v = vec![SetItem::Prop(1, 0, int(taken))];
        if owner {
            v.push(SetItem::Prop(1, 1, Ex::Var(0)));
        }
        v
    };
    let ret = |rng: &mut Rng| if rng.chance(3, 4) { Some(vec![Ex::Var(0), Ex::Var(1)]) } else { None };
    match rng.below(8) {
        // the seeded witness: ON CREATE rewrites the key, every row must create
        0 | 1 => St { cls: vec![Cl::Unwind(Ex::List(vals.iter().map(|v| int(*v)).collect()), 0), Cl::Merge(pat, take(true), vec![])], ret: ret(rng) },
        // ON MATCH and ON CREATE both take the slot
        2 | 3 => St { cls: vec![Cl::Unwind(Ex::List(vals.iter().map(|v| int(*v)).collect()), 0), Cl::Merge(pat, take(true), take(true))], ret: ret(rng) },
        // ON MATCH takes the slot, ON CREATE leaves it free: rows alternate create / match
        4 => St { cls: vec![Cl::Unwind(Ex::List(vals.iter().map(|v| int(*v)).collect()), 0), Cl::Merge(pat, vec![SetItem::Prop(1, 1, Ex::Var(0))], take(false))], ret: ret(rng) },
        // the counter idiom (the pattern keeps matching): the cache would be right here
        5 => St { cls: vec![Cl::Unwind(Ex::List(vals.iter().map(|v| int(*v)).collect()), 0), Cl::Merge(pat, vec![SetItem::Prop(1, 1, int(0))], vec![SetItem::Prop(1, 1, bin("add", Ex::Prop(1, 1), int(1)))])], ret: if rng.chance(1, 2) { Some(vec![Ex::Var(0), Ex::Var(1)]) } else { None } },
        // MATCH driven rows
        6 => St {
            cls: vec![Cl::MatchN(3, vec![2], vec![]), Cl::Filter(Ex::Un("notnull", Box::new(Ex::Prop(3, 0)))), Cl::Merge(NPat { var: Some(1), labels: vec![label], props: vec![(0, int(free))] }, vec![SetItem::Prop(1, 0, int(taken)), SetItem::Prop(1, 1, Ex::Prop(3, 0))], vec![SetItem::Prop(1, 0, int(taken)), SetItem::Prop(1, 1, Ex::Prop(3, 0))])],
            ret: if rng.chance(1, 2) { Some(vec![Ex::Prop(3, 0), Ex::Var(1)]) } else { None },
        },
        // each row deletes what it bound: the next row must not find it
        _ => St { cls: vec![Cl::Unwind(Ex::List(vals.iter().map(|v| int(*v)).collect()), 0), Cl::Merge(pat, vec![], vec![]), Cl::With(vec![1, 0], vec![]), Cl::Delete(true, vec![1])], ret: None },
    }
}

/// number of nodes of `g` matching a literal-only node pattern (all labels, all integer properties)
fn count_pat_matches(g: &DumpG, p: &NPat) -> usize {
    g.nodes
        .iter()
        .filter(|(_, lt, ps)| {
            let have: Vec<&str> = lt.split('.').collect();
            p.labels.iter().all(|l| have.contains(&l.to_string().as_str()))
                && p.props.iter().all(|(k, e)| match e {
                    Ex::Lit(PropertyValue::Integer(v)) => ps.split(',').any(|x| x == format!("{}=I{}", k, v)),
                    _ => false,
                })
        })
        .count()
}

/// S and the engine agree on a MERGE only while its pattern has at most one match (S binds the
/// first, openCypher all, the engine an arbitrary one); a MATCH-driven MERGE that takes a
/// pre-existing slot would also depend on the scan order.  Such statements are not generated.
fn reeval_ok(pre: &DumpG, st: &St) -> bool {
    let match_driven = st.cls.iter().any(|c| matches!(c, Cl::MatchN(..)));
    st.cls.iter().all(|c| match c {
        Cl::Merge(p, ..) => {
            let n = count_pat_matches(pre, p);
            n <= 1 && !(match_driven && n == 1)
        }
        _ => true,
    })
}

fn run_reeval_scenario(rng: &mut Rng, cases: &mut Vec<Case>) {
    let node = |ls: Vec<u32>, props: Vec<(u32, Ex)>| St { cls: vec![Cl::Create(vec![CPath { a: NPat { var: None, labels: ls, props }, seg: None }])], ret: None };
    let mut setup = vec![];
    // at most ONE free slot per label exists at any time (a MERGE with several matches is
    // outside what S and the engine agree on), any number of taken ones
    for label in 0..2u32 {
        if rng.chance(1, 2) {
            setup.push(node(vec![label], vec![(0, int(0))]));
        }
        for _ in 0..rng.usize(3) {
            setup.push(node(vec![label], vec![(0, int(1)), (1, int(rng.range(1, 3)))]));
        }
    }
    // the MATCH-driven rows: :L2 nodes with distinct k0
    for i in 0..rng.usize(4) {
        setup.push(node(vec![2], vec![(0, int(40 + i as i64))]));
    }
    let mut store = GraphStore::new();
    let mut texts = vec![];
    let n_stmts = 3 + rng.usize(4);
    for k in 0..setup.len() + n_stmts {
        let pre = dump(&store);
        let st = if k < setup.len() {
            setup[k].clone()
        } else {
            let pg = parse_dump(&pre).unwrap_or_default();
            let mut pick = None;
            for _ in 0..12 {
                let cand = gen_reeval_stmt(rng);
                if reeval_ok(&pg, &cand) {
                    pick = Some(cand);
                    break;
                }
            }
            // nothing unambiguous: take every free slot of one label (a plain MATCH … SET)
            pick.unwrap_or_else(|| St { cls: vec![Cl::MatchN(1, vec![rng.below(2) as u32], vec![(0, int(0))]), Cl::Set(vec![SetItem::Prop(1, 0, int(1))])], ret: None })
        };
        let text = st.cypher();
        texts.push(text.clone());
        let o = exec(&mut store, &text, None);
        let post = dump(&store);
        let out = match &o.rows {
            Ok(rows) => Ok(rows_text(rows)),
            Err((k, _)) => Err(k.tag().to_string()),
        };
        cases.push(Case { pre, st, text, out, post, seq_texts: texts.clone() });
    }
}

// ---------------------------------------------------------------------------------------
// Multigraph scenarios: relationship-level writes where several relationships share their
// endpoints.  One node per label (A:L0, B:L1, C:L2); 2-4 parallel A->B relationships of one
// type (some equal-looking: same k0) and of another type, an anti-parallel B->A pair, a
// self-loop, C->B.  Statements delete / update ONE relationship out of several (property
// filter on the relationship variable, IN lists), detach-delete an endpoint, create new
// relationships elsewhere afterwards (id reuse) and read back in both directions, typed and
// untyped.  The dump lists relationships through every node's adjacency lists.
// (Class of the seeded change C04-c: delete_edge unlinks the wrong parallel sibling.)
// ---------------------------------------------------------------------------------------

fn gen_multi_stmt(rng: &mut Rng) -> St {
    // (start label, end label) of the pattern
    let (la, lb) = *rng.pick(&[(0u32, 1u32), (0, 1), (0, 1), (1, 0), (2, 1), (0, 0)]);
    let ty = *rng.pick(&[0u32, 0, 1, 999]);
    let pat = |rng: &mut Rng| if rng.chance(1, 2) { Cl::MatchR(1, vec![la], 2, ty, 3, vec![lb]) } else { Cl::MatchRRev(1, vec![la], 2, ty, 3, vec![lb]) };
    let x = rng.range(1, 3);
    let filt = |rng: &mut Rng| match rng.below(4) {
        0 => bin("in", Ex::Prop(2, 0), Ex::List(vec![int(x), int(rng.range(1, 4))])),
        1 => bin("gt", Ex::Prop(2, 0), int(x)),
        _ => bin("eq", Ex::Prop(2, 0), int(x)),
    };
    match rng.below(12) {
        // delete ONE (or some) of several parallel relationships
        0 | 1 | 2 => St { cls: vec![pat(rng), Cl::Filter(filt(rng)), Cl::Delete(false, vec![2])], ret: if rng.chance(1, 3) { Some(vec![int(1)]) } else { None } },
        // update / strip some of them
        3 => St { cls: vec![pat(rng), Cl::Filter(filt(rng)), Cl::Set(vec![SetItem::Prop(2, 1, int(rng.range(5, 7)))])], ret: None },
        4 => St { cls: vec![pat(rng), Cl::Filter(filt(rng)), Cl::Remove(vec![RemItem::Prop(2, rng.below(2) as u32)])], ret: None },
        // read back, both directions, typed and untyped
        5 | 6 | 7 => St { cls: vec![pat(rng)], ret: Some(vec![Ex::Prop(2, 0), Ex::Prop(2, 1), Ex::Prop(1, 0), Ex::Prop(3, 0)]) },
        // new relationships elsewhere (their ids are the ones just freed)
        8 | 9 => {
            let (s, t) = *rng.pick(&[(2u32, 1u32), (1, 2), (0, 1), (1, 0), (2, 0)]);
            St {
                cls: vec![Cl::MatchN(1, vec![s], vec![]), Cl::MatchN(3, vec![t], vec![]), Cl::Create(vec![CPath { a: NPat { var: Some(1), labels: vec![], props: vec![] }, seg: Some((rng.below(2) as u32, vec![(0, int(rng.range(1, 4)))], true, NPat { var: Some(3), labels: vec![], props: vec![] })) }])],
                ret: None,
            }
        }
        // a self-loop more
        10 => St { cls: vec![Cl::MatchN(1, vec![rng.below(3) as u32], vec![]), Cl::Create(vec![CPath { a: NPat { var: Some(1), labels: vec![], props: vec![] }, seg: Some((0, vec![(0, int(rng.range(1, 4)))], true, NPat { var: Some(1), labels: vec![], props: vec![] })) }])], ret: None },
        // detach-delete one endpoint (and put a node of that label back)
        _ => {
            let l = rng.below(3) as u32;
            St { cls: vec![Cl::MatchN(1, vec![l], vec![]), Cl::Delete(true, vec![1])], ret: None }
        }
    }
}

fn run_multi_scenario(rng: &mut Rng, cases: &mut Vec<Case>) {
    let v = |i: u32| NPat { var: Some(i), labels: vec![], props: vec![] };
    let mut paths = vec![
        CPath { a: NPat { var: Some(1), labels: vec![0], props: vec![(0, int(1))] }, seg: None },
        CPath { a: NPat { var: Some(2), labels: vec![1], props: vec![(0, int(2))] }, seg: None },
        CPath { a: NPat { var: Some(3), labels: vec![2], props: vec![(0, int(3))] }, seg: None },
    ];
    let rel = |a: u32, b: u32, ty: u32, k: i64| CPath { a: v(a), seg: Some((ty, vec![(0, int(k))], true, v(b))) };
    // 2-4 parallel A->B of type T0; sometimes two of them look alike
    let n_par = 2 + rng.usize(3);
    for i in 0..n_par {
        let k = if i == 1 && rng.chance(1, 4) { 1 } else { i as i64 + 1 };
        paths.push(rel(1, 2, 0, k));
    }
    for i in 0..rng.usize(3) {
        paths.push(rel(1, 2, 1, i as i64 + 1)); // parallel, other type
    }
    if rng.chance(2, 3) {
        paths.push(rel(2, 1, 0, 1)); // anti-parallel
        if rng.chance(1, 2) {
            paths.push(rel(2, 1, 0, 2));
        }
    }
    if rng.chance(1, 2) {
        paths.push(rel(1, 1, 0, 2)); // self-loop
    }
    for i in 0..rng.usize(3) {
        paths.push(rel(3, 2, 0, i as i64 + 1)); // C->B
    }
    // shuffle the relationship paths so that adjacency order and ids do not line up with k0
    let (nodes, rels) = paths.split_at(3);
    let idx = shuffled(rng, (0..rels.len() as u32).collect());
    let mut all: Vec<CPath> = nodes.to_vec();
    all.extend(idx.into_iter().map(|i| rels[i as usize].clone()));
    let setup = St { cls: vec![Cl::Create(all)], ret: None };

    let mut store = GraphStore::new();
    let mut texts = vec![];
    let n_stmts = 5 + rng.usize(6);
    for k in 0..1 + n_stmts {
        let pre = dump(&store);
        let pg = parse_dump(&pre).unwrap_or_default();
        let st = if k == 0 {
            setup.clone()
        } else {
            // every label keeps exactly one node: a deleted endpoint is put back
            let missing = (0..3u32).find(|l| !pg.nodes.iter().any(|(_, lt, _)| lt.split('.').any(|x| x == l.to_string())));
            match missing {
                Some(l) => St { cls: vec![Cl::Create(vec![CPath { a: NPat { var: None, labels: vec![l], props: vec![(0, int(l as i64 + 1))] }, seg: None }])], ret: None },
                None => gen_multi_stmt(rng),
            }
        };
        let text = st.cypher();
        texts.push(text.clone());
        let o = exec(&mut store, &text, None);
        let post = dump(&store);
        let out = match &o.rows {
            Ok(rows) => Ok(rows_text(rows)),
            Err((k, _)) => Err(k.tag().to_string()),
        };
        cases.push(Case { pre, st, text, out, post, seq_texts: texts.clone() });
    }
}

/// The engine pulls MATCH rows through the write operator one at a time (no eager barrier): a row deleted by an
/// earlier row's DETACH DELETE is never produced, openCypher evaluates the MATCH first.  This classifier says
/// "yes" ONLY when (i) the statement is a MATCH of a relationship pattern (+ WHERE) followed by DELETE / DETACH DELETE
/// of a matched NODE, (ii) the implementation deleted a strict subset of what the specification deletes and changed
/// nothing else, and (iii) every surviving node's matching rows all involve an entity the implementation did delete.
fn is_no_eager_barrier(term: &str, pre: &DumpG, imp: &DumpG, model: &DumpG) -> bool {
    // (i) shape, from the model term: MR(va,[la],vr,ty,vb,[lb]);W(..)*;D(d,v..)[|R(..)]
    let body = term.split('|').next().unwrap_or("");
    let cls: Vec<&str> = body.split(';').collect();
    let Some(mr) = cls.first().and_then(|c| c.strip_prefix("MR(")).and_then(|c| c.strip_suffix(')')) else { return false };
    let Some(del) = cls.last().and_then(|c| c.strip_prefix("D(")).and_then(|c| c.strip_suffix(')')) else { return false };
    if cls.len() < 2 || !cls[1..cls.len() - 1].iter().all(|c| c.starts_with("W(")) {
        return false;
    }
    // va,[la],vr,ty,vb,[lb]
    let parts: Vec<&str> = mr.split(|c| c == '[' || c == ']').collect();
    if parts.len() < 5 {
        return false;
    }
    let va = parts[0].trim_end_matches(',');
    let la: Vec<&str> = parts[1].split(',').filter(|x| !x.is_empty()).collect();
    let mid: Vec<&str> = parts[2].trim_matches(',').split(',').collect(); // vr, ty, vb
    if mid.len() != 3 {
        return false;
    }
    let (ty, vb) = (mid[1], mid[2]);
    let lb: Vec<&str> = parts[3].split(',').filter(|x| !x.is_empty()).collect();
    let dvars: Vec<&str> = del.split(',').skip(1).collect();
    let del_a = dvars.contains(&va);
    let del_b = dvars.contains(&vb);
    if !del_a && !del_b {
        return false;
    }
    // (ii) strict subset, nothing else changed
    let ids = |g: &DumpG| g.nodes.iter().map(|n| n.0).collect::<Vec<u64>>();
    let (pi, ii, mi) = (ids(pre), ids(imp), ids(model));
    if !mi.iter().all(|x| ii.contains(x)) || !ii.iter().all(|x| pi.contains(x)) || ii.len() == mi.len() {
        return false;
    }
    if !imp.nodes.iter().all(|n| pre.nodes.contains(n)) || !imp.rels.iter().all(|r| pre.rels.contains(r)) || !model.rels.iter().all(|r| imp.rels.contains(r)) {
        return false;
    }
    // (iii) each survivor's rows were invalidated by an entity the implementation deleted
    let has = |g: &DumpG, id: u64, ls: &Vec<&str>| g.nodes.iter().any(|n| n.0 == id && ls.iter().all(|l| n.1.split('.').any(|x| x == *l)));
    let survivors: Vec<u64> = ii.iter().filter(|x| !mi.contains(x)).cloned().collect();
    survivors.iter().all(|n| {
        let rows: Vec<&(u64, u64, u64, String, String)> = pre
            .rels
            .iter()
            .filter(|r| (ty == "999" || r.3 == ty) && has(pre, r.1, &la) && has(pre, r.2, &lb) && ((del_a && r.1 == *n) || (del_b && r.2 == *n)))
            .collect();
        !rows.is_empty() && rows.iter().all(|r| !imp.rels.iter().any(|x| x.0 == r.0) || !ii.contains(&r.1) || !ii.contains(&r.2))
    })
}

struct Case {
    pre: String,
    st: St,
    text: String,
    /// engine: Ok(sorted rows text) | Err(kind)
    out: Result<String, String>,
    post: String,
    seq_texts: Vec<String>,
}

fn run_sequence(stmts: &[St], cases: &mut Vec<Case>) {
    let mut store = GraphStore::new();
    let mut texts = vec![];
    for st in stmts {
        let pre = dump(&store);
        let text = st.cypher();
        texts.push(text.clone());
        let o = exec(&mut store, &text, None);
        let post = dump(&store);
        let out = match &o.rows {
            Ok(rows) => Ok(rows_text(rows)),
            Err((k, _)) => Err(k.tag().to_string()),
        };
        cases.push(Case { pre, st: st.clone(), text, out, post, seq_texts: texts.clone() });
    }
}

fn main() {
    let args = Args::parse();
    if let Some(i) = args.extra.iter().position(|a| a == "--probe") {
        cyw::probe(&args.extra[i + 1]);
        return;
    }
    let known = Known::load(&args.known, "C04");
    let mut rep = Report::new(
        "C04",
        "sequences of generated write statements (CREATE, MERGE ON CREATE/ON MATCH, SET prop/=/+=/label, REMOVE, DELETE, DETACH DELETE \
         under unit / UNWIND / MATCH node / MATCH relationship / WITH sources) on an evolving store; per statement the engine's rows and \
         full dump vs the Lean reference semantics started from the engine's own pre-dump; non-trivial = the statement changed the graph; \
         distinct = distinct (pre-dump, statement)",
        &args.replays,
        args.seed,
    );
    let exe = args.driver_exe("drv_cyw");
    let mut cases: Vec<Case> = vec![];

    // 1. corpus / replay: one sequence per file, one Cypher statement per line, given as
    //    `stmt <model term>` lines (the Cypher text is re-rendered from the term by the
    //    generator's AST only for generated cases; corpus lines carry both)
    let mut files: Vec<std::path::PathBuf> = vec![];
    if let Some(r) = &args.replay {
        files.push(r.clone());
    } else if let Ok(rd) = std::fs::read_dir(args.corpus.join("C04")) {
        files = rd.filter_map(|e| e.ok().map(|e| e.path())).collect();
        files.sort();
    }
    let mut corpus_cases: Vec<(String, String, String, Result<String, String>, String, Vec<String>)> = vec![];
    for f in &files {
        let mut store = GraphStore::new();
        let mut texts = vec![];
        for line in std::fs::read_to_string(f).unwrap_or_default().lines() {
            let line = line.trim();
            if line.is_empty() || line.starts_with('#') {
                continue;
            }
            if line == "!reset" {
                store = GraphStore::new();
                texts.clear();
                continue;
            }
            // `<model term> ||| <cypher text>`
            let Some((term, text)) = line.split_once(" ||| ") else { continue };
            let pre = dump(&store);
            texts.push(text.to_string());
            let o = exec(&mut store, text, None);
            let post = dump(&store);
            let out = match &o.rows {
                Ok(rows) => Ok(rows_text(rows)),
                Err((k, _)) => Err(k.tag().to_string()),
            };
            corpus_cases.push((pre, term.trim().to_string(), text.to_string(), out, post, texts.clone()));
        }
    }
    rep.count_n("corpus_statements", corpus_cases.len() as u64);

    // 2. generated sequences
    if args.replay.is_none() {
        let mut rng = Rng::new(vharness::util::fnv(&format!("c04-{}", args.seed)));
        let n_seq = if args.thorough() { 6000 } else { 700 };
        for _ in 0..n_seq {
            let len = 4 + rng.usize(7);
            let mut stmts = vec![];
            for _ in 0..len {
                stmts.push(if rng.chance(1, 40) { gen_known(&mut rng) } else { gen_stmt(&mut rng) });
            }
            run_sequence(&stmts, &mut cases);
        }
        // CREATE paths with a recurring fresh variable, in sequences of their own (with read-backs): the cycles they
        // build are kept out of the general sequences, where a MATCH-driven DETACH DELETE over a cycle would hit the
        // engine's streaming of MATCH rows through writes (not generated, see the module notes)
        let n_chain = if args.thorough() { 2000 } else { 250 };
        for _ in 0..n_chain {
            let len = 3 + rng.usize(4);
            let mut stmts = vec![];
            for _ in 0..len {
                stmts.push(match rng.below(6) {
                    0 => St { cls: vec![Cl::MatchR(1, vec![rng.below(NL as u64) as u32], 2, 999, 3, vec![])], ret: Some(vec![Ex::Prop(1, 0), Ex::Prop(2, 0), Ex::Prop(3, 0)]) },
                    1 => St { cls: vec![Cl::MatchN(1, vec![rng.below(NL as u64) as u32], vec![])], ret: Some(vec![Ex::Prop(1, 0)]) },
                    _ => gen_chain_stmt(&mut rng),
                });
            }
            run_sequence(&stmts, &mut cases);
        }
        let n_multi = if args.thorough() { 2500 } else { 300 };
        for _ in 0..n_multi {
            run_multi_scenario(&mut rng, &mut cases);
        }
        let n_re = if args.thorough() { 2500 } else { 300 };
        for _ in 0..n_re {
            run_reeval_scenario(&mut rng, &mut cases);
        }
        let n_lab = if args.thorough() { 2500 } else { 300 };
        for _ in 0..n_lab {
            run_label_scenario(&mut rng, &mut cases);
        }
    }

    // unify
    struct Flat {
        pre: String,
        term: String,
        text: String,
        out: Result<String, String>,
        post: String,
        seq: Vec<String>,
        sig: String,
        kinds: String,
    }
    let mut flat: Vec<Flat> = corpus_cases
        .into_iter()
        .map(|(pre, term, text, out, post, seq)| Flat { pre, sig: String::new(), kinds: "corpus".into(), term, text, out, post, seq })
        .collect();
    // corpus signatures: from the comment-free term shape is not available; classify by text
    for f in flat.iter_mut() {
        let t = &f.text;
        let bare_sets = t.replace("ON CREATE SET ", "").replace("ON MATCH SET ", "").matches(" SET ").count();
        f.sig = if bare_sets >= 2 {
            "set-after-set-reads-stale".into()
        } else if t.contains("MERGE") && bare_sets >= 1 && (t.starts_with("UNWIND") || t.starts_with("MATCH")) {
            "merge-with-input-then-set-dropped".into()
        } else if t.starts_with("MERGE (v1 {") {
            "merge-unlabelled-never-matches".into()
        } else if t.starts_with("CREATE") && t.contains("-[:") && t.contains(" + ") {
            "create-rel-prop-expr-dropped".into()
        } else if t.contains(" SET ") && t.contains("/ 0") {
            "set-swallowed-eval-error".into()
        } else if t.contains(" DELETE ") && !t.contains("DETACH") {
            "plain-delete-connected".into()
        } else {
            "corpus".into()
        };
    }
    for c in cases {
        flat.push(Flat { sig: signature(&c.st), kinds: c.st.kinds(), pre: c.pre, term: c.st.model(), text: c.text, out: c.out, post: c.post, seq: c.seq_texts });
    }

    // phase 1: model
    let lines: Vec<String> = flat.iter().map(|f| format!("run - {} {}", f.pre, f.term)).collect();
    let replies = driver::par_batch(&exe, &lines, 12);
    // phase 2: renaming certificate + spec on the engine's observations
    let mut spec_lines = vec![];
    let mut rens = vec![];
    for (f, m) in flat.iter().zip(replies.iter()) {
        let (mok, mrows, mgraph) = split_reply(m);
        let ren = if mok && f.out.is_ok() {
            match (parse_dump(&f.post), parse_dump(&mgraph)) {
                // the renaming must carry the returned node handles as well; if none does, fall
                // back to a graph-only renaming so that S reports the rows
                (Some(a), Some(b)) => find_renaming_rows(&a, &b, f.out.as_ref().ok().map(|r| (r.as_str(), mrows.as_str()))).or_else(|| find_renaming(&a, &b)),
                _ => None,
            }
        } else {
            None
        };
        let obs = match &f.out {
            Ok(rows) => format!("ok@{}@{}", rows, f.post),
            // leftovers of a failed statement are C05's subject: the observation says "unchanged"
            Err(k) => format!("err@{}@{}", k, f.pre),
        };
        spec_lines.push(format!("spec - {} {} {} {}", f.pre, f.term, obs, ren_text(ren.as_deref().unwrap_or(&[]))));
        rens.push(ren);
    }
    let verdicts = driver::par_batch(&exe, &spec_lines, 12);

    let mut first_break: Option<String> = None;
    for (i, f) in flat.iter().enumerate() {
        let m = &replies[i];
        let s = &verdicts[i];
        let changed = f.post != f.pre;
        rep.case(&format!("{} {}", f.pre, f.term), changed);
        rep.count(&format!("shape:{}", f.kinds));
        match &f.out {
            Ok(_) => rep.count("engine:ok"),
            Err(k) => rep.count(&format!("engine:err:{}", k)),
        }
        if changed && rep.samples.len() < 4 {
            rep.sample(json!({"statement": f.text, "pre": f.pre, "post": f.post, "rows": f.out.clone().unwrap_or_default()}));
        }
        let body = format!(
            "# sequence (from an empty store):\n{}\n# failing statement\nstmt {} ||| {}\npre   {}\nimpl  {:?} {}\nmodel {}\nspec  {}",
            f.seq.iter().map(|t| format!("#   {}", t)).collect::<Vec<_>>().join("\n"),
            f.term,
            f.text,
            f.pre,
            f.out,
            f.post,
            m,
            s
        );
        if m == "bad-op" || s == "bad-op" {
            rep.count("driver_rejected");
            if first_break.is_none() {
                first_break = Some(body.clone());
            }
            continue;
        }
        if m == "err unsup" {
            // outside the modelled expression fragment: not a verdict either way
            rep.count("model_unsupported");
            continue;
        }
        if s != "ok" {
            // the one structural refinement of a signature that needs the outcome, not only the statement
            let (_, _, mgraph) = split_reply(m);
            let sig = match (&f.out, parse_dump(&f.pre), parse_dump(&f.post), parse_dump(&mgraph)) {
                (Ok(_), Some(a), Some(b), Some(c)) if is_no_eager_barrier(&f.term, &a, &b, &c) => "no-eager-barrier:match-driven-delete".to_string(),
                _ => f.sig.clone(),
            };
            let f_sig = &sig;
            rep.count(&format!("spec_violation:{}", f_sig));
            rep.spec_violation(&known, f_sig, &format!("`{}` on {}: engine {:?} / {} but S gives {}", f.text, f.pre, f.out, f.post, m), &body);
            continue;
        }
        // S holds; M must agree with R as well (rows as bags, graph up to the certificate)
        let (mok, mrows, _) = split_reply(m);
        let agree = match &f.out {
            Ok(rows) => mok && rens[i].is_some() && sort_rows_text(&mrows) == rename_rows(rows, rens[i].as_deref().unwrap_or(&[])),
            Err(_) => !mok,
        };
        if !agree {
            rep.count("model_mismatch");
            if first_break.is_none() {
                first_break = Some(body);
            }
        }
    }
    if let Some(body) = first_break {
        if rep.spec_violations.is_empty() {
            rep.correspondence_break(
                "SgModel.CyW.exec = parse_query + MutQueryExecutor::execute (rows, full dump)",
                "model and engine differ (or the driver rejected a request) although the specification holds on all explored cases",
                &body,
            );
        }
    }
    rep.extra.insert("grammar_version".into(), json!("cyw-1: unit|UNWIND|MATCH node|MATCH rel|WITH sources; CREATE node/path, MERGE node ON CREATE/ON MATCH, SET prop/=/+=/label, REMOVE prop/label, DELETE, DETACH DELETE; RETURN of scalars"));
    rep.write(&args.out);
}
