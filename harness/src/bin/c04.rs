//! C04 — placeholder while probing (replaced below)
#[path = "cyw/mod.rs"]
mod cyw;
use vharness::Args;
fn main() {
    let args = Args::parse();
    if let Some(i) = args.extra.iter().position(|a| a == "--probe") {
        cyw::probe(&args.extra[i + 1]);
        return;
    }
}
