//! C17 — persistent storage never mixes tenants: real RocksDB-backed `PersistentStorage`
//! (temp dirs under `args.work`) and `TenantManager::create_tenant` vs the Lean model
//! `SgModel.TenantKV`, and the reference-map specification evaluated on the implementation's
//! scans / point reads / tenant listing after every write.
use samyama::graph::{Edge, EdgeId, Label, Node, NodeId};
use samyama::persistence::{PersistentStorage, TenantManager};
use serde_json::json;
use std::collections::HashMap;
use vharness::{driver, util::hex, Args, Known, Report, Rng};

#[derive(Clone, Debug, PartialEq)]
enum Op {
    PutNode(String, u64, u64),
    DelNode(String, u64),
    PutEdge(String, u64, u64),
    DelEdge(String, u64),
}

impl Op {
    fn tenant(&self) -> &str {
        match self {
            Op::PutNode(t, ..) | Op::DelNode(t, ..) | Op::PutEdge(t, ..) | Op::DelEdge(t, ..) => t,
        }
    }
    fn id(&self) -> u64 {
        match self {
            Op::PutNode(_, i, _) | Op::DelNode(_, i) | Op::PutEdge(_, i, _) | Op::DelEdge(_, i) => *i,
        }
    }
}

fn accepted(t: &str) -> bool {
    !t.is_empty() && !t.contains(':')
}

fn render(ops: &[Op]) -> String {
    ops.iter()
        .map(|o| match o {
            Op::PutNode(t, i, g) => format!("pn:{}:{}:{}", hex(t.as_bytes()), i, g),
            Op::DelNode(t, i) => format!("dn:{}:{}", hex(t.as_bytes()), i),
            Op::PutEdge(t, i, g) => format!("pe:{}:{}:{}", hex(t.as_bytes()), i, g),
            Op::DelEdge(t, i) => format!("de:{}:{}", hex(t.as_bytes()), i),
        })
        .collect::<Vec<_>>()
        .join(";")
}

fn parse(s: &str) -> Option<Vec<Op>> {
    let mut out = vec![];
    for p in s.split(';') {
        let f: Vec<&str> = p.split(':').collect();
        let name = |h: &str| -> Option<String> { String::from_utf8(vharness::util::unhex(h)?).ok() };
        out.push(match f.as_slice() {
            ["pn", t, i, g] => Op::PutNode(name(t)?, i.parse().ok()?, g.parse().ok()?),
            ["dn", t, i] => Op::DelNode(name(t)?, i.parse().ok()?),
            ["pe", t, i, g] => Op::PutEdge(name(t)?, i.parse().ok()?, g.parse().ok()?),
            ["de", t, i] => Op::DelEdge(name(t)?, i.parse().ok()?),
            _ => return None,
        });
    }
    Some(out)
}

fn dedup_keep<T: Eq + std::hash::Hash + Clone>(xs: impl Iterator<Item = T>) -> Vec<T> {
    let mut seen = std::collections::HashSet::new();
    let mut out = vec![];
    for x in xs {
        if seen.insert(x.clone()) {
            out.push(x);
        }
    }
    out
}

fn tag_of(s: &str) -> String {
    s.get(1..).and_then(|x| x.parse::<u64>().ok()).map_or_else(|| format!("?{}", s), |t| t.to_string())
}

struct RealRun {
    obs: Vec<String>,
    /// structural class of each step's foreign data, if any (computed against the acknowledged writes)
    class: Vec<Option<&'static str>>,
    two_tenants_hold_data: bool,
}

/// one case on a (clean) real store
fn run_real(st: &PersistentStorage, ops: &[Op]) -> RealRun {
    let tenants: Vec<String> = dedup_keep(ops.iter().map(|o| o.tenant().to_string()));
    let ids: Vec<u64> = dedup_keep(ops.iter().map(|o| o.id()));
    let mut refm: HashMap<(char, String, u64), u64> = HashMap::new();
    let mut obs = vec![];
    let mut class = vec![];
    let mut two = false;
    for op in ops {
        let ok = match op {
            Op::PutNode(t, i, g) => st.put_node(t, &Node::new(NodeId::new(*i), Label::new(format!("L{}", g)))).is_ok(),
            Op::DelNode(t, i) => st.delete_node(t, *i).is_ok(),
            Op::PutEdge(t, i, g) => st
                .put_edge(t, &Edge::new(EdgeId::new(*i), NodeId::new(1), NodeId::new(2), format!("T{}", g)))
                .is_ok(),
            Op::DelEdge(t, i) => st.delete_edge(t, *i).is_ok(),
        };
        if ok {
            match op {
                Op::PutNode(t, i, g) => {
                    refm.insert(('n', t.clone(), *i), *g);
                }
                Op::DelNode(t, i) => {
                    refm.remove(&('n', t.clone(), *i));
                }
                Op::PutEdge(t, i, g) => {
                    refm.insert(('e', t.clone(), *i), *g);
                }
                Op::DelEdge(t, i) => {
                    refm.remove(&('e', t.clone(), *i));
                }
            }
        }
        for kind in ['n', 'e'] {
            let holders: std::collections::HashSet<&String> = refm.keys().filter(|k| k.0 == kind).map(|k| &k.1).collect();
            if holders.len() >= 2 {
                two = true;
            }
        }
        let mut cls: Option<&'static str> = None;
        let mut note_foreign = |kind: char, t: &str, id: u64, tag: &str| {
            if refm.get(&(kind, t.to_string(), id)).map(|g| g.to_string()) != Some(tag.to_string()) {
                // whose is it?
                let owner_unaccepted = refm.iter().any(|(k, g)| k.0 == kind && k.2 == id && g.to_string() == tag && !accepted(&k.1));
                let c = if !accepted(t) || owner_unaccepted { "separator-collision" } else { "scan-overrun" };
                if cls.is_none() || c == "separator-collision" {
                    cls = Some(c);
                }
            }
        };
        let mut scans_n = vec![];
        let mut scans_e = vec![];
        for t in &tenants {
            scans_n.push(match st.scan_nodes(t) {
                Err(_) => "E".to_string(),
                Ok(v) if v.is_empty() => "~".to_string(),
                Ok(v) => v
                    .iter()
                    .map(|n| {
                        let tag = n.labels.iter().next().map_or("?".to_string(), |l| tag_of(l.as_str()));
                        note_foreign('n', t, n.id.as_u64(), &tag);
                        format!("{}.{}", n.id.as_u64(), tag)
                    })
                    .collect::<Vec<_>>()
                    .join("+"),
            });
            scans_e.push(match st.scan_edges(t) {
                Err(_) => "E".to_string(),
                Ok(v) if v.is_empty() => "~".to_string(),
                Ok(v) => v
                    .iter()
                    .map(|e| {
                        let tag = tag_of(e.edge_type.as_str());
                        note_foreign('e', t, e.id.as_u64(), &tag);
                        format!("{}.{}", e.id.as_u64(), tag)
                    })
                    .collect::<Vec<_>>()
                    .join("+"),
            });
        }
        let mut gets_n = vec![];
        let mut gets_e = vec![];
        for t in &tenants {
            for i in &ids {
                gets_n.push(match st.get_node(t, *i) {
                    Err(_) => "E".to_string(),
                    Ok(None) => "_".to_string(),
                    Ok(Some(n)) => format!("{}.{}", n.id.as_u64(), n.labels.iter().next().map_or("?".to_string(), |l| tag_of(l.as_str()))),
                });
                gets_e.push(match st.get_edge(t, *i) {
                    Err(_) => "E".to_string(),
                    Ok(None) => "_".to_string(),
                    Ok(Some(e)) => format!("{}.{}", e.id.as_u64(), tag_of(e.edge_type.as_str())),
                });
            }
        }
        let listed = match st.list_persisted_tenants() {
            Err(_) => "E".to_string(),
            Ok(mut v) => {
                v.sort_by(|a, b| a.as_bytes().cmp(b.as_bytes()));
                if v.is_empty() {
                    "~".to_string()
                } else {
                    v.iter().map(|t| hex(t.as_bytes())).collect::<Vec<_>>().join(",")
                }
            }
        };
        obs.push(format!(
            "{}|{}|{}|{}|{}|{}",
            ok as u8,
            scans_n.join(","),
            scans_e.join(","),
            gets_n.join(","),
            gets_e.join(","),
            listed
        ));
        class.push(cls);
    }
    RealRun { obs, class, two_tenants_hold_data: two }
}

/// remove everything the case may have written, through the public API
fn clean(st: &PersistentStorage, ops: &[Op]) -> bool {
    for op in ops {
        let _ = st.delete_node(op.tenant(), op.id());
        let _ = st.delete_edge(op.tenant(), op.id());
    }
    let tenants: Vec<String> = dedup_keep(ops.iter().map(|o| o.tenant().to_string()));
    st.list_persisted_tenants().map_or(false, |v| v.is_empty())
        && tenants.iter().all(|t| st.scan_edges(t).map_or(true, |v| v.is_empty()))
}

const POOL: &[&str] = &[
    "a", "b", "a:n", "a:", ":", "", "ab", "a0", "a;", "a9", "b:e", "default", "é", "a:n:0000000000000001", "A", "a:e",
];

fn templates(t1: &str, t2: &str) -> Vec<Vec<Op>> {
    let (a, b) = (t1.to_string(), t2.to_string());
    vec![
        vec![
            Op::PutNode(a.clone(), 1, 10),
            Op::PutNode(b.clone(), 2, 20),
            Op::PutEdge(a.clone(), 1, 11),
            Op::PutEdge(b.clone(), 2, 21),
            Op::DelNode(a.clone(), 1),
            Op::PutNode(b.clone(), 1, 22),
            Op::DelEdge(b.clone(), 2),
        ],
        vec![
            Op::PutNode(b.clone(), 1, 30),
            Op::PutNode(a.clone(), 1, 31),
            Op::PutNode(a.clone(), 1, 32),
            Op::PutEdge(b.clone(), u64::MAX, 33),
            Op::DelNode(b.clone(), 1),
            Op::PutEdge(a.clone(), 0, 34),
            Op::DelNode(a.clone(), 1),
        ],
    ]
}

fn random_case(rng: &mut Rng) -> Vec<Op> {
    let names: Vec<&str> = (0..3).map(|_| *rng.pick(POOL)).collect();
    let ids: [u64; 5] = [0, 1, 2, 255, u64::MAX];
    let mut ops = vec![];
    for _ in 0..4 + rng.usize(8) {
        let t = rng.pick(&names).to_string();
        let n_ids = 3 + rng.usize(3);
        let i = *rng.pick(&ids[..n_ids]);
        let g = rng.below(90) + 1;
        ops.push(match rng.below(10) {
            0..=3 => Op::PutNode(t, i, g),
            4..=6 => Op::PutEdge(t, i, g),
            7 | 8 => Op::DelNode(t, i),
            _ => Op::DelEdge(t, i),
        });
    }
    ops
}

fn main() {
    let args = Args::parse();
    let known = Known::load(&args.known, "C17");
    let mut rep = Report::new(
        "C17",
        "interleaved put/delete of nodes and relationships under pairs and triples of tenant names (prefixes of one another, adjacent in \
         byte order, containing ':', empty, non-ASCII, \"default\") on a real RocksDB-backed PersistentStorage; scan_nodes/scan_edges per \
         tenant, get_node/get_edge per (tenant,id) and list_persisted_tenants after every write; non-trivial = at some point two distinct \
         tenant names both hold data in the same column family (their key ranges are then adjacent or nested); distinct = distinct rendered history",
        &args.replays,
        args.seed,
    );
    let exe = args.driver_exe("drv_tenantkv");

    let mut cases: Vec<Vec<Op>> = vec![];
    let mut files: Vec<std::path::PathBuf> = vec![];
    if let Some(r) = &args.replay {
        files.push(r.clone());
    } else if let Ok(rd) = std::fs::read_dir(args.corpus.join("C17")) {
        files = rd.filter_map(|e| e.ok().map(|e| e.path())).collect();
        files.sort();
    }
    let mut n_corpus = 0;
    for f in &files {
        for line in std::fs::read_to_string(f).unwrap_or_default().lines() {
            if let Some(rest) = line.trim().strip_prefix("ops ") {
                if let Some(c) = parse(rest.trim()) {
                    cases.push(c);
                    n_corpus += 1;
                }
            }
        }
    }
    rep.count_n("corpus_cases", n_corpus);

    if args.replay.is_none() {
        for t1 in POOL {
            for t2 in POOL {
                cases.extend(templates(t1, t2));
            }
        }
        rep.exhaustive = true;
        rep.exhaustive_note = format!(
            "all {} ordered pairs of the {} pool names x 2 fixed interleavings (exhaustive over the pool, not over all strings); plus PRNG histories over name triples (not exhaustive)",
            POOL.len() * POOL.len(),
            POOL.len()
        );
        let mut rng = Rng::new(args.seed);
        let n_rand = if args.thorough() { 30_000 } else { 2_500 };
        for _ in 0..n_rand {
            let mut r = rng.fork();
            cases.push(random_case(&mut r));
        }
    }

    // real runs: a few worker threads, one RocksDB each, cleaned between cases
    let n_workers = 8usize;
    let work = args.work.clone();
    let per = (cases.len() + n_workers - 1) / n_workers.max(1);
    let reals: Vec<RealRun> = std::thread::scope(|sc| {
        let hs: Vec<_> = cases
            .chunks(per.max(1))
            .enumerate()
            .map(|(w, part)| {
                let work = work.clone();
                sc.spawn(move || {
                    let mut n_db = 0;
                    let mut open = |n: &mut usize| {
                        *n += 1;
                        let d = work.join(format!("c17-w{}-db{}", w, n));
                        std::fs::create_dir_all(&d).expect("work dir");
                        PersistentStorage::open(&d).expect("open rocksdb")
                    };
                    let mut st = open(&mut n_db);
                    let mut out = vec![];
                    for c in part {
                        out.push(run_real(&st, c));
                        if !clean(&st, c) {
                            drop(st);
                            st = open(&mut n_db);
                        }
                    }
                    out
                })
            })
            .collect();
        hs.into_iter().flat_map(|h| h.join().expect("real thread")).collect()
    });

    let rendered: Vec<String> = cases.iter().map(|c| render(c)).collect();
    let mut lines = Vec::with_capacity(cases.len() * 3);
    for (k, r) in rendered.iter().enumerate() {
        let names: Vec<String> = dedup_keep(cases[k].iter().map(|o| o.tenant().to_string()));
        lines.push(format!("run {}", r));
        lines.push(format!("spec {} {}", r, reals[k].obs.join(";")));
        lines.push(format!("create {}", names.iter().map(|t| hex(t.as_bytes())).collect::<Vec<_>>().join(",")));
    }
    let replies = driver::par_batch(&exe, &lines, 12);

    let mut first_break: Option<String> = None;
    for (k, c) in cases.iter().enumerate() {
        let m = &replies[3 * k];
        let s = &replies[3 * k + 1];
        let mc = &replies[3 * k + 2];
        let rr = &reals[k];
        rep.case(&rendered[k], rr.two_tenants_hold_data);
        for o in c {
            rep.count(match o {
                Op::PutNode(..) => "op:put_node",
                Op::DelNode(..) => "op:delete_node",
                Op::PutEdge(..) => "op:put_edge",
                Op::DelEdge(..) => "op:delete_edge",
            });
        }
        let names: Vec<String> = dedup_keep(c.iter().map(|o| o.tenant().to_string()));
        for t in &names {
            rep.count(if t.is_empty() {
                "name:empty"
            } else if t.contains(':') {
                "name:contains-separator"
            } else if !t.is_ascii() {
                "name:non-ascii"
            } else {
                "name:plain"
            });
        }
        if rr.obs.iter().any(|o| o.starts_with('0')) {
            rep.count("cases_with_rejected_write");
        }
        if rr.two_tenants_hold_data && rep.samples.len() < 3 {
            rep.sample(json!({"ops": rendered[k], "names": names, "impl_obs_last": rr.obs.last()}));
        }
        let obs_txt = rr.obs.join(";");
        let body = format!("ops {}\nnames {:?}\nimpl  {}\nmodel {}\nspec  {}", rendered[k], names, obs_txt, m, s);
        // TenantManager::create_tenant on a fresh manager, names in order
        let tm = TenantManager::new();
        let created: Vec<bool> = names.iter().map(|t| tm.create_tenant(t.clone(), t.clone(), None).is_ok()).collect();
        let created_txt = format!("ok {}", created.iter().map(|b| (*b as u8).to_string()).collect::<Vec<_>>().join(","));
        let mut violated = false;
        if let Some(bad) = names.iter().zip(created.iter()).find(|(t, ok)| !accepted(t) && **ok) {
            violated = true;
            rep.count("spec_violation:unvalidated-tenant-id");
            rep.spec_violation(
                &known,
                "unvalidated-tenant-id",
                &format!("TenantManager::create_tenant accepted the id {:?} (empty or containing the key separator ':')", bad.0),
                &format!("{}\ncreate impl {} model {}", body, created_txt, mc),
            );
        }
        if s != "ok" {
            violated = true;
            let sig = match s.strip_prefix("viol ").and_then(|x| x.parse::<usize>().ok()) {
                Some(i) => rr.class.get(i).copied().flatten().unwrap_or(if names.iter().any(|t| !accepted(t)) {
                    "separator-collision"
                } else {
                    "missing-or-listing"
                }),
                None => "driver-rejected",
            };
            rep.count(&format!("spec_violation:{}", sig));
            rep.spec_violation(
                &known,
                sig,
                &format!("a scan / read / tenant listing returned data that was not stored for that tenant ({}) on `{}` names {:?}", s, rendered[k], names),
                &body,
            );
        }
        if !violated && (*m != format!("ok {}", obs_txt) || *mc != created_txt) {
            rep.count("model_mismatch");
            first_break.get_or_insert(format!("{}\ncreate impl {} model {}", body, created_txt, mc));
        }
    }
    if let Some(body) = first_break {
        if rep.spec_violations.is_empty() {
            rep.correspondence_break(
                "SgModel.TenantKV.{stepWith accepts,scanNodes,scanEdges,getNode,getEdge,listTenants,createTenant} = PersistentStorage::{put_*,delete_*,scan_*,get_*,list_persisted_tenants} / TenantManager::create_tenant (observations)",
                "model and implementation observations differ but the specification holds on all explored cases",
                &body,
            );
        }
    }
    rep.write(&args.out);
}
