//! C17 — persistent storage never mixes tenants: real RocksDB-backed `PersistentStorage`
//! (temp dirs under `args.work`) and `TenantManager::create_tenant` vs the Lean model
//! `SgModel.TenantKV`, and the reference-map specification evaluated on the implementation's
//! scans / point reads / tenant listing after every write.
use samyama::graph::{Edge, EdgeId, Label, Node, NodeId};
use samyama::persistence::{PersistenceManager, PersistentStorage, TenantManager};
use serde_json::json;
use std::collections::HashMap;
use vharness::{driver, util::hex, Args, Known, Report, Rng};

#[derive(Clone, Debug, PartialEq)]
enum Op {
    PutNode(String, u64, u64),
    DelNode(String, u64),
    PutEdge(String, u64, u64),
    DelEdge(String, u64),
}

impl Op {
    fn tenant(&self) -> &str {
        match self {
            Op::PutNode(t, ..) | Op::DelNode(t, ..) | Op::PutEdge(t, ..) | Op::DelEdge(t, ..) => t,
        }
    }
    fn id(&self) -> u64 {
        match self {
            Op::PutNode(_, i, _) | Op::DelNode(_, i) | Op::PutEdge(_, i, _) | Op::DelEdge(_, i) => *i,
        }
    }
}

fn accepted(t: &str) -> bool {
    !t.is_empty() && !t.contains(':')
}

fn render(ops: &[Op]) -> String {
    ops.iter()
        .map(|o| match o {
            Op::PutNode(t, i, g) => format!("pn:{}:{}:{}", hex(t.as_bytes()), i, g),
            Op::DelNode(t, i) => format!("dn:{}:{}", hex(t.as_bytes()), i),
            Op::PutEdge(t, i, g) => format!("pe:{}:{}:{}", hex(t.as_bytes()), i, g),
            Op::DelEdge(t, i) => format!("de:{}:{}", hex(t.as_bytes()), i),
        })
        .collect::<Vec<_>>()
        .join(";")
}

fn parse(s: &str) -> Option<Vec<Op>> {
    let mut out = vec![];
    for p in s.split(';') {
        let f: Vec<&str> = p.split(':').collect();
        let name = |h: &str| -> Option<String> { String::from_utf8(vharness::util::unhex(h)?).ok() };
        out.push(match f.as_slice() {
            ["pn", t, i, g] => Op::PutNode(name(t)?, i.parse().ok()?, g.parse().ok()?),
            ["dn", t, i] => Op::DelNode(name(t)?, i.parse().ok()?),
            ["pe", t, i, g] => Op::PutEdge(name(t)?, i.parse().ok()?, g.parse().ok()?),
            ["de", t, i] => Op::DelEdge(name(t)?, i.parse().ok()?),
            _ => return None,
        });
    }
    Some(out)
}

fn dedup_keep<T: Eq + std::hash::Hash + Clone>(xs: impl Iterator<Item = T>) -> Vec<T> {
    let mut seen = std::collections::HashSet::new();
    let mut out = vec![];
    for x in xs {
        if seen.insert(x.clone()) {
            out.push(x);
        }
    }
    out
}

fn tag_of(s: &str) -> String {
    s.get(1..).and_then(|x| x.parse::<u64>().ok()).map_or_else(|| format!("?{}", s), |t| t.to_string())
}

/// the two public front ends of the storage: `PersistentStorage` directly, or through
/// `PersistenceManager` (persist_* writes; scans observed through `recover`)
enum Store<'a> {
    St(&'a PersistentStorage),
    Pm(&'a PersistenceManager),
}

impl<'a> Store<'a> {
    fn st(&self) -> &PersistentStorage {
        match self {
            Store::St(s) => s,
            Store::Pm(p) => p.storage(),
        }
    }
    fn write(&self, op: &Op) -> bool {
        let node = |i: u64, g: u64| Node::new(NodeId::new(i), Label::new(format!("L{}", g)));
        let edge = |i: u64, g: u64| Edge::new(EdgeId::new(i), NodeId::new(1), NodeId::new(2), format!("T{}", g));
        match (self, op) {
            (Store::St(s), Op::PutNode(t, i, g)) => s.put_node(t, &node(*i, *g)).is_ok(),
            (Store::St(s), Op::DelNode(t, i)) => s.delete_node(t, *i).is_ok(),
            (Store::St(s), Op::PutEdge(t, i, g)) => s.put_edge(t, &edge(*i, *g)).is_ok(),
            (Store::St(s), Op::DelEdge(t, i)) => s.delete_edge(t, *i).is_ok(),
            (Store::Pm(p), Op::PutNode(t, i, g)) => p.persist_create_node(t, &node(*i, *g)).is_ok(),
            (Store::Pm(p), Op::DelNode(t, i)) => p.persist_delete_node(t, *i).is_ok(),
            (Store::Pm(p), Op::PutEdge(t, i, g)) => p.persist_create_edge(t, &edge(*i, *g)).is_ok(),
            (Store::Pm(p), Op::DelEdge(t, i)) => p.persist_delete_edge(t, *i).is_ok(),
        }
    }
    /// (nodes, edges) of one tenant: scan_nodes + scan_edges, or one `recover`
    fn scans(&self, t: &str) -> (Option<Vec<Node>>, Option<Vec<Edge>>) {
        match self {
            Store::St(s) => (s.scan_nodes(t).ok(), s.scan_edges(t).ok()),
            Store::Pm(p) => match p.recover(t) {
                Ok((n, e)) => (Some(n), Some(e)),
                Err(_) => (None, None),
            },
        }
    }
    fn list(&self) -> Option<Vec<String>> {
        match self {
            Store::St(s) => s.list_persisted_tenants().ok(),
            Store::Pm(p) => p.list_persisted_tenants().ok(),
        }
    }
}

struct RealRun {
    obs: Vec<String>,
    /// structural class of each step's foreign data, if any (computed against the acknowledged writes)
    class: Vec<Option<&'static str>>,
    two_tenants_hold_data: bool,
}

/// one case on a (clean) real store
fn run_real(store: &Store, ops: &[Op]) -> RealRun {
    let st = store.st();
    let tenants: Vec<String> = dedup_keep(ops.iter().map(|o| o.tenant().to_string()));
    let ids: Vec<u64> = dedup_keep(ops.iter().map(|o| o.id()));
    let mut refm: HashMap<(char, String, u64), u64> = HashMap::new();
    let mut obs = vec![];
    let mut class = vec![];
    let mut two = false;
    for op in ops {
        let ok = store.write(op);
        if ok {
            match op {
                Op::PutNode(t, i, g) => {
                    refm.insert(('n', t.clone(), *i), *g);
                }
                Op::DelNode(t, i) => {
                    refm.remove(&('n', t.clone(), *i));
                }
                Op::PutEdge(t, i, g) => {
                    refm.insert(('e', t.clone(), *i), *g);
                }
                Op::DelEdge(t, i) => {
                    refm.remove(&('e', t.clone(), *i));
                }
            }
        }
        for kind in ['n', 'e'] {
            let holders: std::collections::HashSet<&String> = refm.keys().filter(|k| k.0 == kind).map(|k| &k.1).collect();
            if holders.len() >= 2 {
                two = true;
            }
        }
        let mut cls: Option<&'static str> = None;
        let mut note_foreign = |kind: char, t: &str, id: u64, tag: &str| {
            if refm.get(&(kind, t.to_string(), id)).map(|g| g.to_string()) != Some(tag.to_string()) {
                // whose is it?
                let owner_unaccepted = refm.iter().any(|(k, g)| k.0 == kind && k.2 == id && g.to_string() == tag && !accepted(&k.1));
                let c = if !accepted(t) || owner_unaccepted { "separator-collision" } else { "scan-overrun" };
                if cls.is_none() || c == "separator-collision" {
                    cls = Some(c);
                }
            }
        };
        let mut scans_n = vec![];
        let mut scans_e = vec![];
        for t in &tenants {
            let (ns, es) = store.scans(t);
            scans_n.push(match ns {
                None => "E".to_string(),
                Some(v) if v.is_empty() => "~".to_string(),
                Some(v) => v
                    .iter()
                    .map(|n| {
                        let tag = n.labels.iter().next().map_or("?".to_string(), |l| tag_of(l.as_str()));
                        note_foreign('n', t, n.id.as_u64(), &tag);
                        format!("{}.{}", n.id.as_u64(), tag)
                    })
                    .collect::<Vec<_>>()
                    .join("+"),
            });
            scans_e.push(match es {
                None => "E".to_string(),
                Some(v) if v.is_empty() => "~".to_string(),
                Some(v) => v
                    .iter()
                    .map(|e| {
                        let tag = tag_of(e.edge_type.as_str());
                        note_foreign('e', t, e.id.as_u64(), &tag);
                        format!("{}.{}", e.id.as_u64(), tag)
                    })
                    .collect::<Vec<_>>()
                    .join("+"),
            });
        }
        let mut gets_n = vec![];
        let mut gets_e = vec![];
        let mut read_mismatch = false;
        for t in &tenants {
            for i in &ids {
                let gn = match st.get_node(t, *i) {
                    Err(_) => "E".to_string(),
                    Ok(None) => "_".to_string(),
                    Ok(Some(n)) => format!("{}.{}", n.id.as_u64(), n.labels.iter().next().map_or("?".to_string(), |l| tag_of(l.as_str()))),
                };
                let ge = match st.get_edge(t, *i) {
                    Err(_) => "E".to_string(),
                    Ok(None) => "_".to_string(),
                    Ok(Some(e)) => format!("{}.{}", e.id.as_u64(), tag_of(e.edge_type.as_str())),
                };
                for (kind, got) in [('n', &gn), ('e', &ge)] {
                    let want = refm.get(&(kind, t.clone(), *i)).map_or("_".to_string(), |g| format!("{}.{}", i, g));
                    if got.as_str() != "E" && *got != want {
                        read_mismatch = true;
                    }
                }
                gets_n.push(gn);
                gets_e.push(ge);
            }
        }
        if read_mismatch && cls != Some("separator-collision") {
            // a point read cannot be explained by a scan running too far: two names share keys
            cls = Some(if tenants.iter().all(|t| accepted(t)) { "accepted-names-share-keys" } else { "separator-collision" });
        }
        let listed = match store.list() {
            None => "E".to_string(),
            Some(mut v) => {
                v.sort_by(|a, b| a.as_bytes().cmp(b.as_bytes()));
                if v.is_empty() {
                    "~".to_string()
                } else {
                    v.iter().map(|t| hex(t.as_bytes())).collect::<Vec<_>>().join(",")
                }
            }
        };
        obs.push(format!(
            "{}|{}|{}|{}|{}|{}",
            ok as u8,
            scans_n.join(","),
            scans_e.join(","),
            gets_n.join(","),
            gets_e.join(","),
            listed
        ));
        class.push(cls);
    }
    RealRun { obs, class, two_tenants_hold_data: two }
}

/// remove everything the case may have written, through the public API
fn clean(st: &PersistentStorage, ops: &[Op]) -> bool {
    for op in ops {
        let _ = st.delete_node(op.tenant(), op.id());
        let _ = st.delete_edge(op.tenant(), op.id());
    }
    let tenants: Vec<String> = dedup_keep(ops.iter().map(|o| o.tenant().to_string()));
    st.list_persisted_tenants().map_or(false, |v| v.is_empty())
        && tenants.iter().all(|t| st.scan_edges(t).map_or(true, |v| v.is_empty()))
}

/// round-1 pool: prefixes of one another, adjacent around ':' in byte order, containing ':', empty, non-ASCII
const POOL: &[&str] = &[
    "a", "b", "a:n", "a:", ":", "", "ab", "a0", "a;", "a9", "b:e", "default", "é", "a:n:0000000000000001", "A", "a:e",
];

/// Groups of *accepted* names that some normalisation would identify (trim of ASCII / Unicode
/// white space, case folding, Unicode normal form, path-like clean-up, zero-width characters,
/// NUL, length truncation).  Storage must keep every pair inside a group apart.
fn near_groups() -> Vec<Vec<String>> {
    let long = format!("t{}", "x".repeat(299));
    vec![
        vec![
            "acme", "acme ", " acme", "acme\t", "acme\r", "acme\n", "acme\r\n", "acme\u{a0}", "\u{a0}acme", "acme\u{3000}", "Acme",
            "ACME", "acme/", "acme.", "./acme", "acme\u{200b}", "ac\u{200d}me", "\u{feff}acme", "acme\0", "acme  ", "ACME ",
        ]
        .into_iter()
        .map(String::from)
        .collect(),
        vec!["caf\u{e9}", "cafe\u{301}", "CAF\u{c9}", "caf\u{e9} ", "cafe"].into_iter().map(String::from).collect(),
        vec![long.clone(), format!("{} ", long), format!("{}y", &long[..299]), format!("{}x", long), long.to_uppercase(), long[..255].to_string()],
        vec!["default", "default ", "Default", " default", "default\n"].into_iter().map(String::from).collect(),
    ]
}

fn templates(t1: &str, t2: &str) -> Vec<Vec<Op>> {
    let (a, b) = (t1.to_string(), t2.to_string());
    vec![
        vec![
            Op::PutNode(a.clone(), 1, 10),
            Op::PutNode(b.clone(), 2, 20),
            Op::PutEdge(a.clone(), 1, 11),
            Op::PutEdge(b.clone(), 2, 21),
            Op::DelNode(a.clone(), 1),
            Op::PutNode(b.clone(), 1, 22),
            Op::DelEdge(b.clone(), 2),
        ],
        // the same id under both names: put by one then read by the other, delete by one then read by the other
        vec![
            Op::PutNode(b.clone(), 1, 30),
            Op::PutNode(a.clone(), 1, 31),
            Op::PutNode(a.clone(), 1, 32),
            Op::PutEdge(b.clone(), u64::MAX, 33),
            Op::DelNode(b.clone(), 1),
            Op::PutEdge(a.clone(), 0, 34),
            Op::DelNode(a.clone(), 1),
        ],
        // both column families at one id, deletes across tenants
        vec![
            Op::PutEdge(a.clone(), 5, 50),
            Op::PutEdge(b.clone(), 5, 51),
            Op::PutNode(a.clone(), 5, 52),
            Op::PutNode(b.clone(), 5, 53),
            Op::DelEdge(a.clone(), 5),
            Op::DelNode(a.clone(), 5),
            Op::PutEdge(a.clone(), 5, 54),
            Op::DelNode(b.clone(), 5),
        ],
    ]
}

fn random_case(rng: &mut Rng, groups: &[Vec<String>]) -> Vec<Op> {
    // half of the histories stay inside one near-identical group
    let names: Vec<String> = if rng.chance(1, 2) {
        let g = rng.pick(groups);
        (0..3).map(|_| rng.pick(g).clone()).collect()
    } else {
        (0..3)
            .map(|_| {
                if rng.chance(1, 3) {
                    let g = rng_group(rng, groups);
                    rng.pick(g).clone()
                } else {
                    rng.pick(POOL).to_string()
                }
            })
            .collect()
    };
    let ids: [u64; 5] = [0, 1, 2, 255, u64::MAX];
    let mut ops = vec![];
    for _ in 0..4 + rng.usize(8) {
        let t = rng.pick(&names).to_string();
        let n_ids = 3 + rng.usize(3);
        let i = *rng.pick(&ids[..n_ids]);
        let g = rng.below(90) + 1;
        ops.push(match rng.below(10) {
            0..=3 => Op::PutNode(t, i, g),
            4..=6 => Op::PutEdge(t, i, g),
            7 | 8 => Op::DelNode(t, i),
            _ => Op::DelEdge(t, i),
        });
    }
    ops
}

fn rng_group<'a>(rng: &mut Rng, groups: &'a [Vec<String>]) -> &'a Vec<String> {
    &groups[rng.usize(groups.len())]
}

static T_PM_US: std::sync::atomic::AtomicU64 = std::sync::atomic::AtomicU64::new(0);
static T_ST_US: std::sync::atomic::AtomicU64 = std::sync::atomic::AtomicU64::new(0);
/// adds the elapsed time of one case to the per-front-end totals (evidence only)
struct Timer(std::time::Instant, bool);
impl Drop for Timer {
    fn drop(&mut self) {
        let us = self.0.elapsed().as_micros() as u64;
        (if self.1 { &T_PM_US } else { &T_ST_US }).fetch_add(us, std::sync::atomic::Ordering::Relaxed);
    }
}

/// one case: a history and the front end it is driven through
#[derive(Clone)]
struct Case {
    ops: Vec<Op>,
    pm: bool, // through PersistenceManager (persist_* / recover) instead of PersistentStorage
}

fn main() {
    let args = Args::parse();
    let known = Known::load(&args.known, "C17");
    let mut rep = Report::new(
        "C17",
        "interleaved put/delete of nodes and relationships under pairs and triples of tenant names (prefixes of one another, adjacent in \
         byte order, containing ':', empty, non-ASCII, \"default\", and groups of accepted names that a normalisation would identify: \
         leading/trailing space, tab, CR, LF, NBSP, ideographic space, ASCII case, Unicode normal form, trailing '/' or '.', zero-width \
         characters, NUL, 300-byte names) on a real RocksDB-backed PersistentStorage and through PersistenceManager (persist_* / recover); \
         scans per tenant, get_node/get_edge per (tenant,id) and list_persisted_tenants after every write; non-trivial = at some point two \
         distinct tenant names both hold data in the same column family; distinct = distinct rendered history + front end",
        &args.replays,
        args.seed,
    );
    let exe = args.driver_exe("drv_tenantkv");
    let groups = near_groups();

    let mut cases: Vec<Case> = vec![];
    let mut files: Vec<std::path::PathBuf> = vec![];
    if let Some(r) = &args.replay {
        files.push(r.clone());
    } else if let Ok(rd) = std::fs::read_dir(args.corpus.join("C17")) {
        files = rd.filter_map(|e| e.ok().map(|e| e.path())).collect();
        files.sort();
    }
    let mut n_corpus = 0;
    for f in &files {
        for line in std::fs::read_to_string(f).unwrap_or_default().lines() {
            let line = line.trim();
            let (pm, rest) = if let Some(r) = line.strip_prefix("pmops ") {
                (true, r)
            } else if let Some(r) = line.strip_prefix("ops ") {
                (false, r)
            } else {
                continue;
            };
            if let Some(c) = parse(rest.trim()) {
                cases.push(Case { ops: c, pm });
                n_corpus += 1;
            }
        }
    }
    rep.count_n("corpus_cases", n_corpus);

    if args.replay.is_none() {
        let mut rng = Rng::new(args.seed);
        // (1) always: every pair inside a near-identical group (orientation from the seed; the
        //     interleavings use both names in both roles) x every interleaving
        let mut n_near = 0;
        for g in &groups {
            for (i, t1) in g.iter().enumerate() {
                for t2 in g.iter().skip(i + 1) {
                    let (x, y) = if rng.chance(1, 2) { (t1, t2) } else { (t2, t1) };
                    for ops in templates(x, y) {
                        cases.push(Case { ops, pm: false });
                    }
                    n_near += 1;
                }
            }
        }
        // (2) always: every ordered pair of the round-1 pool x the first two interleavings
        for t1 in POOL {
            for t2 in POOL {
                for ops in templates(t1, t2).into_iter().take(2) {
                    cases.push(Case { ops, pm: false });
                }
            }
        }
        // (3) sampled from the seed: ordered pairs over the union of all names
        let all: Vec<String> = POOL.iter().map(|s| s.to_string()).chain(groups.iter().flatten().cloned()).collect();
        let n_pairs = if args.thorough() { 4_000 } else { 150 };
        for _ in 0..n_pairs {
            let t1 = rng.pick(&all).clone();
            let t2 = rng.pick(&all).clone();
            for ops in templates(&t1, &t2) {
                cases.push(Case { ops, pm: false });
            }
        }
        // (4) through PersistenceManager: base-vs-variant pairs of every group (both orders), the
        //     round-1 witnesses, and sampled pairs
        let mut n_pm = 0;
        for g in &groups {
            for v in g.iter().skip(1) {
                let orientations: Vec<(&String, &String)> =
                    if args.thorough() { vec![(&g[0], v), (v, &g[0])] } else if rng.chance(1, 2) { vec![(&g[0], v)] } else { vec![(v, &g[0])] };
                for (t1, t2) in orientations {
                    for ops in templates(t1, t2) {
                        cases.push(Case { ops, pm: true });
                        n_pm += 1;
                    }
                }
            }
        }
        for (t1, t2) in [("a", "b"), ("a", "a:n"), ("", "a"), ("a9", "a;"), ("ab", "a")] {
            for ops in templates(t1, t2) {
                cases.push(Case { ops, pm: true });
                n_pm += 1;
            }
        }
        for _ in 0..(if args.thorough() { 600 } else { 10 }) {
            let t1 = rng.pick(&all).clone();
            let t2 = rng.pick(&all).clone();
            for ops in templates(&t1, &t2) {
                cases.push(Case { ops, pm: true });
                n_pm += 1;
            }
        }
        rep.exhaustive = true;
        rep.exhaustive_note = format!(
            "always: all {} pairs inside the {} near-identical name groups x 3 interleavings (orientation from the seed), all {} ordered pairs of the 16-name round-1 pool x 2 interleavings, \
             {} PersistenceManager histories (every base/variant pair of every group x 3 interleavings + round-1 witnesses + sampled); sampled from the seed: {} ordered pairs \
             over all {} names x 3 interleavings and PRNG histories over name triples (exhaustive over the listed pools, not over all strings)",
            n_near,
            groups.len(),
            POOL.len() * POOL.len(),
            n_pm,
            n_pairs,
            all.len()
        );
        let n_rand = if args.thorough() { 30_000 } else { 800 };
        for _ in 0..n_rand {
            let mut r = rng.fork();
            cases.push(Case { ops: random_case(&mut r, &groups), pm: false });
        }
        for _ in 0..(if args.thorough() { 1_500 } else { 30 }) {
            let mut r = rng.fork();
            cases.push(Case { ops: random_case(&mut r, &groups), pm: true });
        }
    }

    // real runs: worker threads; storage cases share one RocksDB per worker (cleaned between
    // cases), PersistenceManager cases get a fresh directory each
    let n_workers = 8usize;
    let work = args.work.clone();
    let mut reals: Vec<Option<RealRun>> = (0..cases.len()).map(|_| None).collect();
    let indexed: Vec<(usize, &Case)> = cases.iter().enumerate().collect();
    let per = (indexed.len() + n_workers - 1) / n_workers.max(1);
    let parts: Vec<Vec<(usize, RealRun)>> = std::thread::scope(|sc| {
        let hs: Vec<_> = indexed
            .chunks(per.max(1))
            .enumerate()
            .map(|(w, part)| {
                let work = work.clone();
                sc.spawn(move || {
                    let mut n_db = 0;
                    let mut open = |n: &mut usize| {
                        *n += 1;
                        let d = work.join(format!("c17-w{}-db{}", w, n));
                        std::fs::create_dir_all(&d).expect("work dir");
                        PersistentStorage::open(&d).expect("open rocksdb")
                    };
                    let mut st = open(&mut n_db);
                    let mut pm: Option<PersistenceManager> = None;
                    let mut n_pm_dirs = 0;
                    let mut out = vec![];
                    for (k, c) in part {
                        let t0 = std::time::Instant::now();
                        let _g = Timer(t0, c.pm);
                        if c.pm {
                            if pm.is_none() {
                                n_pm_dirs += 1;
                                let d = work.join(format!("c17-w{}-pm{}", w, n_pm_dirs));
                                pm = Some(PersistenceManager::new(&d).expect("persistence manager"));
                            }
                            let m = pm.as_ref().unwrap();
                            for t in dedup_keep(c.ops.iter().map(|o| o.tenant().to_string())) {
                                let _ = m.tenants().create_tenant(t.clone(), t.clone(), None);
                            }
                            out.push((*k, run_real(&Store::Pm(m), &c.ops)));
                            if !clean(m.storage(), &c.ops) {
                                pm = None; // something is left behind: next case gets a fresh directory
                            }
                        } else {
                            out.push((*k, run_real(&Store::St(&st), &c.ops)));
                            if !clean(&st, &c.ops) {
                                drop(st);
                                st = open(&mut n_db);
                            }
                        }
                    }
                    out
                })
            })
            .collect();
        hs.into_iter().map(|h| h.join().expect("real thread")).collect()
    });
    for part in parts {
        for (k, r) in part {
            reals[k] = Some(r);
        }
    }
    let reals: Vec<RealRun> = reals.into_iter().map(|r| r.expect("every case ran")).collect();
    rep.extra.insert("real_phase_s".into(), json!(rep.elapsed_s()));
    rep.extra.insert("thread_seconds_persistence_manager_cases".into(), json!(T_PM_US.load(std::sync::atomic::Ordering::Relaxed) as f64 / 1e6));
    rep.extra.insert("thread_seconds_storage_cases".into(), json!(T_ST_US.load(std::sync::atomic::Ordering::Relaxed) as f64 / 1e6));

    let rendered: Vec<String> = cases.iter().map(|c| render(&c.ops)).collect();
    let mut lines = Vec::with_capacity(cases.len() * 3);
    for (k, r) in rendered.iter().enumerate() {
        let names: Vec<String> = dedup_keep(cases[k].ops.iter().map(|o| o.tenant().to_string()));
        lines.push(format!("run {}", r));
        lines.push(format!("spec {} {}", r, reals[k].obs.join(";")));
        lines.push(format!("create {}", names.iter().map(|t| hex(t.as_bytes())).collect::<Vec<_>>().join(",")));
    }
    let replies = driver::par_batch(&exe, &lines, 12);
    rep.extra.insert("real_plus_driver_phase_s".into(), json!(rep.elapsed_s()));

    let mut first_break: Option<String> = None;
    for (k, case) in cases.iter().enumerate() {
        let c = &case.ops;
        let m = &replies[3 * k];
        let s = &replies[3 * k + 1];
        let mc = &replies[3 * k + 2];
        let rr = &reals[k];
        let canon = format!("{}{}", if case.pm { "pm " } else { "" }, rendered[k]);
        rep.case(&canon, rr.two_tenants_hold_data);
        rep.count(if case.pm { "front-end:PersistenceManager(persist_*/recover)" } else { "front-end:PersistentStorage" });
        for o in c {
            rep.count(match o {
                Op::PutNode(..) => "op:put_node",
                Op::DelNode(..) => "op:delete_node",
                Op::PutEdge(..) => "op:put_edge",
                Op::DelEdge(..) => "op:delete_edge",
            });
        }
        let names: Vec<String> = dedup_keep(c.iter().map(|o| o.tenant().to_string()));
        for t in &names {
            rep.count(if t.is_empty() {
                "name:empty"
            } else if t.contains(':') {
                "name:contains-separator"
            } else if t.trim() != t || t.chars().any(|ch| ch.is_control() || "\u{200b}\u{200d}\u{feff}".contains(ch)) {
                "name:accepted-with-whitespace/control/zero-width"
            } else if !t.is_ascii() {
                "name:non-ascii"
            } else if t.len() > 200 {
                "name:long"
            } else {
                "name:plain"
            });
        }
        if names.iter().any(|a| names.iter().any(|b| a != b && groups.iter().any(|g| g.contains(a) && g.contains(b)))) {
            rep.count("cases_with_near-identical_accepted_pair");
        }
        if rr.obs.iter().any(|o| o.starts_with('0')) {
            rep.count("cases_with_rejected_write");
        }
        if rr.two_tenants_hold_data && rep.samples.len() < 4 && (k % 7 == 0) {
            rep.sample(json!({"ops": rendered[k], "pm": case.pm, "names": names, "impl_obs_last": rr.obs.last()}));
        }
        let obs_txt = rr.obs.join(";");
        let body = format!(
            "{} {}\nnames {:?}\nimpl  {}\nmodel {}\nspec  {}",
            if case.pm { "pmops" } else { "ops" },
            rendered[k],
            names,
            obs_txt,
            m,
            s
        );
        // TenantManager::create_tenant on a fresh manager, names in order
        let tm = TenantManager::new();
        let created: Vec<bool> = names.iter().map(|t| tm.create_tenant(t.clone(), t.clone(), None).is_ok()).collect();
        let created_txt = format!("ok {}", created.iter().map(|b| (*b as u8).to_string()).collect::<Vec<_>>().join(","));
        let mut violated = false;
        if let Some(bad) = names.iter().zip(created.iter()).find(|(t, ok)| !accepted(t) && **ok) {
            violated = true;
            rep.count("spec_violation:unvalidated-tenant-id");
            rep.spec_violation(
                &known,
                "unvalidated-tenant-id",
                &format!("TenantManager::create_tenant accepted the id {:?} (empty or containing the key separator ':')", bad.0),
                &format!("{}\ncreate impl {} model {}", body, created_txt, mc),
            );
        }
        if s != "ok" {
            violated = true;
            let sig = match s.strip_prefix("viol ").and_then(|x| x.parse::<usize>().ok()) {
                Some(i) => rr.class.get(i).copied().flatten().unwrap_or(if names.iter().any(|t| !accepted(t)) {
                    "separator-collision"
                } else {
                    "missing-or-listing"
                }),
                None => "driver-rejected",
            };
            rep.count(&format!("spec_violation:{}", sig));
            rep.spec_violation(
                &known,
                sig,
                &format!(
                    "a scan / read / recover / tenant listing returned data that was not stored for that tenant, or lost data that was ({}) on `{}` names {:?}{}",
                    s,
                    rendered[k],
                    names,
                    if case.pm { " through PersistenceManager" } else { "" }
                ),
                &body,
            );
        }
        if !violated && (*m != format!("ok {}", obs_txt) || *mc != created_txt) {
            rep.count("model_mismatch");
            first_break.get_or_insert(format!("{}\ncreate impl {} model {}", body, created_txt, mc));
        }
    }
    if let Some(body) = first_break {
        if rep.spec_violations.is_empty() {
            rep.correspondence_break(
                "SgModel.TenantKV.{stepWith accepts,scanNodes,scanEdges,getNode,getEdge,listTenants,createTenant} = PersistentStorage::{put_*,delete_*,scan_*,get_*,list_persisted_tenants} / PersistenceManager::{persist_*,recover} / TenantManager::create_tenant (observations)",
                "model and implementation observations differ but the specification holds on all explored cases",
                &body,
            );
        }
    }
    rep.write(&args.out);
}
