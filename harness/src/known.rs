//! Read-only view of `/verif/known-findings.json`.
use serde_json::Value;
use std::path::Path;

pub struct Known {
    /// (signature, what) with status "known" for this property
    pub known: Vec<(String, String)>,
    /// signatures with status "fixed" (suppress nothing; listed for the evidence)
    pub fixed: Vec<String>,
}

impl Known {
    pub fn load(path: &Path, property: &str) -> Known {
        let mut k = Known { known: vec![], fixed: vec![] };
        let Ok(txt) = std::fs::read_to_string(path) else { return k };
        let v: Value = serde_json::from_str(&txt).expect("known-findings.json is not JSON");
        for f in v["findings"].as_array().cloned().unwrap_or_default() {
            if f["property"].as_str() != Some(property) {
                continue;
            }
            let sig = f["signature"].as_str().unwrap_or("").to_string();
            match f["status"].as_str() {
                Some("known") => k.known.push((sig, f["what"].as_str().unwrap_or("").to_string())),
                Some("fixed") => k.fixed.push(sig),
                _ => {}
            }
        }
        k
    }
    pub fn is_known(&self, signature: &str) -> Option<&str> {
        self.known.iter().find(|(s, _)| s == signature).map(|(_, w)| w.as_str())
    }
}
