pub fn hex(bytes: &[u8]) -> String {
    if bytes.is_empty() {
        return "-".into();
    }
    let mut s = String::with_capacity(bytes.len() * 2);
    for b in bytes {
        s.push_str(&format!("{:02x}", b));
    }
    s
}

pub fn unhex(s: &str) -> Option<Vec<u8>> {
    if s == "-" {
        return Some(vec![]);
    }
    if s.len() % 2 != 0 {
        return None;
    }
    (0..s.len()).step_by(2).map(|i| u8::from_str_radix(&s[i..i + 2], 16).ok()).collect()
}

/// FNV-1a, for de-duplicating cases in `distinct_nontrivial`.
pub fn fnv(s: &str) -> u64 {
    let mut h: u64 = 0xcbf29ce484222325;
    for b in s.as_bytes() {
        h ^= *b as u64;
        h = h.wrapping_mul(0x100000001b3);
    }
    h
}
