//! SplitMix64: every random choice of a run derives from `VERIF_SEED`, so a disagreement replays.
#[derive(Clone, Debug)]
pub struct Rng(pub u64);

impl Rng {
    pub fn new(seed: u64) -> Self {
        // The state is a non-linear hash of the seed: with a linear map, seeds s and s+1 would
        // give the same SplitMix stream shifted by one call.
        let mut z = seed.wrapping_add(0x1234_5678_9ABC_DEF1);
        for _ in 0..2 {
            z = (z ^ (z >> 30)).wrapping_mul(0xBF58_476D_1CE4_E5B9);
            z = (z ^ (z >> 27)).wrapping_mul(0x94D0_49BB_1331_11EB);
            z ^= z >> 31;
            z = z.wrapping_add(0x9E37_79B9_7F4A_7C15);
        }
        Rng(z)
    }
    pub fn next_u64(&mut self) -> u64 {
        self.0 = self.0.wrapping_add(0x9E37_79B9_7F4A_7C15);
        let mut z = self.0;
        z = (z ^ (z >> 30)).wrapping_mul(0xBF58_476D_1CE4_E5B9);
        z = (z ^ (z >> 27)).wrapping_mul(0x94D0_49BB_1331_11EB);
        z ^ (z >> 31)
    }
    /// uniform in 0..n (n > 0)
    pub fn below(&mut self, n: u64) -> u64 {
        self.next_u64() % n
    }
    pub fn range(&mut self, lo: i64, hi_incl: i64) -> i64 {
        lo + (self.below((hi_incl - lo + 1) as u64) as i64)
    }
    pub fn usize(&mut self, n: usize) -> usize {
        self.below(n as u64) as usize
    }
    pub fn chance(&mut self, num: u64, den: u64) -> bool {
        self.below(den) < num
    }
    pub fn pick<'a, T>(&mut self, xs: &'a [T]) -> &'a T {
        &xs[self.usize(xs.len())]
    }
    /// independent child stream (for per-case generators)
    pub fn fork(&mut self) -> Rng {
        Rng::new(self.next_u64())
    }
}
