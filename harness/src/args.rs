//! Command line shared by all property binaries (invoked by `/verif/check`):
//!   cXX --tier quick|thorough --seed N --drivers DIR --corpus DIR --known FILE
//!       --replays DIR --work DIR --out FILE [--replay FILE] [--budget-s N]
use std::path::PathBuf;

#[derive(Clone, Debug)]
pub struct Args {
    pub tier: String,
    pub seed: u64,
    pub drivers: PathBuf,
    pub corpus: PathBuf,
    pub known: PathBuf,
    pub replays: PathBuf,
    pub work: PathBuf,
    pub out: PathBuf,
    pub replay: Option<PathBuf>,
    pub budget_s: u64,
    pub extra: Vec<String>,
}

impl Args {
    pub fn parse() -> Args {
        let mut a = Args {
            tier: "quick".into(),
            seed: 1,
            drivers: "/verif/lean/.lake/build/bin".into(),
            corpus: "/verif/corpus".into(),
            known: "/verif/known-findings.json".into(),
            replays: "/verif/replays".into(),
            work: "/verif/.work".into(),
            out: "/verif/.work/result.json".into(),
            replay: None,
            budget_s: 0,
            extra: vec![],
        };
        let v: Vec<String> = std::env::args().skip(1).collect();
        let mut i = 0;
        while i < v.len() {
            let need = |i: usize| -> String {
                v.get(i + 1).cloned().unwrap_or_else(|| panic!("missing value for {}", v[i]))
            };
            match v[i].as_str() {
                "--tier" => { a.tier = need(i); i += 1; }
                "--seed" => { a.seed = need(i).parse().expect("seed"); i += 1; }
                "--drivers" => { a.drivers = need(i).into(); i += 1; }
                "--corpus" => { a.corpus = need(i).into(); i += 1; }
                "--known" => { a.known = need(i).into(); i += 1; }
                "--replays" => { a.replays = need(i).into(); i += 1; }
                "--work" => { a.work = need(i).into(); i += 1; }
                "--out" => { a.out = need(i).into(); i += 1; }
                "--replay" => { a.replay = Some(need(i).into()); i += 1; }
                "--budget-s" => { a.budget_s = need(i).parse().expect("budget"); i += 1; }
                other => a.extra.push(other.to_string()),
            }
            i += 1;
        }
        a
    }
    pub fn thorough(&self) -> bool {
        self.tier == "thorough"
    }
    pub fn driver_exe(&self, name: &str) -> PathBuf {
        self.drivers.join(name)
    }
}
