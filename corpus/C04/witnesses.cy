# C04 corpus: `<model term> ||| <Cypher text>` per line, executed in order on one store; `!reset` starts a fresh store.
# 1. defect of the pinned tree, fixed by 8a46553: plain DELETE of a connected node silently detached.
C((v1,[0],{k0:#I1})>0{}>(v2,[1],{k0:#I2})) ||| CREATE (v1:L0 {k0: 1})-[:T0]->(v2:L1 {k0: 2})
MN(v1,[0],{});D(0,v1) ||| MATCH (v1:L0) DELETE v1
MR(v1,[0],v2,0,v3,[1]);D(0,v1,v2) ||| MATCH (v1:L0)-[v2:T0]->(v3:L1) DELETE v1, v2
MR(v1,[0],v2,0,v3,[1]);D(0,v2,v1) ||| MATCH (v1:L0)-[v2:T0]->(v3:L1) DELETE v2, v1
MN(v1,[1],{});D(1,v1) ||| MATCH (v1:L1) DETACH DELETE v1
!reset
# 2. defect of the pinned tree, fixed by 89f5465: SET swallowed evaluation errors and stored null.
C((v1,[0],{k0:#I1})) ||| CREATE (v1:L0 {k0: 1})
MN(v1,[0],{});S(p(v1,k0,div(#I1,#I0))) ||| MATCH (v1:L0) SET v1.k0 = (1 / 0)
MN(v1,[0],{})|R(v1.k0) ||| MATCH (v1:L0) RETURN v1.k0 AS c0
!reset
# 3. later rows see earlier rows' writes: MERGE over duplicate rows, ON MATCH counting
U([#I1,#I1,#I2,#I1],v0);MG((v1,[2],{k0:v0}),[p(v1,k1,#I0)],[p(v1,k1,add(v1.k1,#I1))]) ||| UNWIND [1, 1, 2, 1] AS v0 MERGE (v1:L2 {k0: v0}) ON CREATE SET v1.k1 = 0 ON MATCH SET v1.k1 = (v1.k1 + 1)
U([#I1,#I2],v0);MG((v1,[2],{k0:v0}),[],[]) ||| UNWIND [1, 2] AS v0 MERGE (v1:L2 {k0: v0})
!reset
# 4. known findings (engine defects left in place, see known-findings.d/C04.json)
C((v1,[0],{k0:#I1})) ||| CREATE (v1:L0 {k0: 1})
MN(v1,[0],{});S(p(v1,k1,#I5));S(p(v1,k2,add(v1.k1,#I1))) ||| MATCH (v1:L0) SET v1.k1 = 5 SET v1.k2 = (v1.k1 + 1)
U([#I1,#I2],v0);MG((v1,[1],{k0:v0}),[],[]);S(p(v1,k2,add(v0,#I5))) ||| UNWIND [1, 2] AS v0 MERGE (v1:L1 {k0: v0}) SET v1.k2 = (v0 + 5)
C((v1,[0],{})>0{k0:add(#I1,#I1)}>(v2,[1],{})) ||| CREATE (v1:L0)-[:T0 {k0: (1 + 1)}]->(v2:L1)
MG((v1,[],{k0:#I1}),[],[]) ||| MERGE (v1 {k0: 1})
MG((v1,[],{k0:#I1}),[],[]) ||| MERGE (v1 {k0: 1})
!reset
# 5. label sets are sets (class of the seeded change C04-a): broad label L0 (3 nodes), narrow label L1 (1 node, same k0 as the
#    pattern); MERGE on both labels must create, in either written order, and the second run must match the created node.
C((_,[0],{k0:#I1})) ||| CREATE (:L0 {k0: 1})
C((_,[0],{k0:#I2})) ||| CREATE (:L0 {k0: 2})
C((_,[0],{k0:#I3})) ||| CREATE (:L0 {k0: 3})
C((_,[1],{k0:#I7})) ||| CREATE (:L1 {k0: 7})
MG((v1,[0,1],{k0:#I7}),[p(v1,k1,#I0)],[p(v1,k1,#I1)]) ||| MERGE (v1:L0:L1 {k0: 7}) ON CREATE SET v1.k1 = 0 ON MATCH SET v1.k1 = 1
MG((v1,[1,0],{k0:#I7}),[p(v1,k1,#I0)],[p(v1,k1,#I1)]) ||| MERGE (v1:L1:L0 {k0: 7}) ON CREATE SET v1.k1 = 0 ON MATCH SET v1.k1 = 1
MN(v1,[1,0],{})|R(v1.k0,v1.k1) ||| MATCH (v1:L1:L0) RETURN v1.k0 AS c0, v1.k1 AS c1
MN(v1,[1],{})|R(v1.k0,v1.k1) ||| MATCH (v1:L1) RETURN v1.k0 AS c0, v1.k1 AS c1
MP((v1,[0,1],{k0:#I7}),0,(v2,[1],{k0:#I7})) ||| MERGE (v1:L0:L1 {k0: 7})-[:T0]->(v2:L1 {k0: 7})
MP((v1,[1,0],{k0:#I7}),0,(v2,[1],{k0:#I7})) ||| MERGE (v1:L1:L0 {k0: 7})-[:T0]->(v2:L1 {k0: 7})
!reset
# 6. a later row re-evaluates the pattern against the current graph (class of the seeded change C04-b): literal-only MERGE
#    pattern, multi-row input, ON CREATE / ON MATCH rewrite the key; the bound node is returned per row.
U([#I1,#I2,#I3],v0);MG((v1,[0],{k0:#I0}),[p(v1,k0,#I1),p(v1,k1,v0)],[])|R(v0,v1) ||| UNWIND [1, 2, 3] AS v0 MERGE (v1:L0 {k0: 0}) ON CREATE SET v1.k0 = 1, v1.k1 = v0 RETURN v0 AS c0, v1 AS c1
C((_,[0],{k0:#I0})) ||| CREATE (:L0 {k0: 0})
U([#I10,#I20],v0);MG((v1,[0],{k0:#I0}),[p(v1,k0,#I1),p(v1,k1,v0)],[p(v1,k0,#I1),p(v1,k1,v0)])|R(v0,v1) ||| UNWIND [10, 20] AS v0 MERGE (v1:L0 {k0: 0}) ON CREATE SET v1.k0 = 1, v1.k1 = v0 ON MATCH SET v1.k0 = 1, v1.k1 = v0 RETURN v0 AS c0, v1 AS c1
U([#I5,#I6,#I7],v0);MG((v1,[1],{k0:#I0}),[p(v1,k1,#I0)],[p(v1,k1,add(v1.k1,#I1))]) ||| UNWIND [5, 6, 7] AS v0 MERGE (v1:L1 {k0: 0}) ON CREATE SET v1.k1 = 0 ON MATCH SET v1.k1 = (v1.k1 + 1)
U([#I1,#I2],v0);MG((v1,[2],{k0:#I0}),[],[]);WI([v1,v0],{});D(1,v1) ||| UNWIND [1, 2] AS v0 MERGE (v1:L2 {k0: 0}) WITH v1, v0 DETACH DELETE v1
!reset
# 7. relationship-level writes on a multigraph (class of the seeded change C04-c): three parallel :T0 relationships, one of
#    them deleted by a property filter; the siblings must stay visible in both directions; then id reuse elsewhere.
C((v1,[0],{k0:#I1}),(v2,[1],{k0:#I2}),(v3,[2],{k0:#I3}),(v1,[],{})>0{k0:#I1}>(v2,[],{}),(v1,[],{})>0{k0:#I2}>(v2,[],{}),(v1,[],{})>0{k0:#I3}>(v2,[],{})) ||| CREATE (v1:L0 {k0: 1}), (v2:L1 {k0: 2}), (v3:L2 {k0: 3}), (v1)-[:T0 {k0: 1}]->(v2), (v1)-[:T0 {k0: 2}]->(v2), (v1)-[:T0 {k0: 3}]->(v2)
MR(v1,[0],v2,0,v3,[1]);W(eq(v2.k0,#I2));D(0,v2) ||| MATCH (v1:L0)-[v2:T0]->(v3:L1) WHERE (v2.k0 = 2) DELETE v2
MR(v1,[0],v2,999,v3,[1])|R(v2.k0) ||| MATCH (v1:L0)-[v2]->(v3:L1) RETURN v2.k0 AS c0
MR(v1,[0],v2,0,v3,[1])|R(v2.k0) ||| MATCH (v3:L1)<-[v2:T0]-(v1:L0) RETURN v2.k0 AS c0
MN(v1,[2],{});MN(v3,[1],{});C((v1,[],{})>1{k0:#I9}>(v3,[],{})) ||| MATCH (v1:L2) MATCH (v3:L1) CREATE (v1)-[:T1 {k0: 9}]->(v3)
MR(v1,[0],v2,999,v3,[1])|R(v2.k0) ||| MATCH (v1:L0)-[v2]->(v3:L1) RETURN v2.k0 AS c0
MR(v1,[2],v2,999,v3,[1])|R(v2.k0) ||| MATCH (v3:L1)<-[v2]-(v1:L2) RETURN v2.k0 AS c0
!reset
# 8. a freshly declared variable recurring inside ONE comma-free CREATE path is ONE node (class of the seeded change C04-d)
C((v1,[0],{k0:#I1})>0{}>(v2,[1],{k0:#I2}),(v2,[],{})>1{}>(v1,[],{})) ||| CREATE (v1:L0 {k0: 1})-[:T0]->(v2:L1 {k0: 2})-[:T1]->(v1)
C((v1,[2],{k0:#I7})>0{}>(v1,[],{})) ||| CREATE (v1:L2 {k0: 7})-[:T0]->(v1)
C((v1,[0],{k0:#I3})>0{}>(v2,[1],{k0:#I4}),(v2,[],{})>1{}>(v2,[],{}))|R(v1.k0,v2.k0) ||| CREATE (v1:L0 {k0: 3})-[:T0]->(v2:L1 {k0: 4})-[:T1]->(v2) RETURN v1.k0 AS c0, v2.k0 AS c1
C((v1,[0],{k0:#I5}),(v2,[1],{k0:#I6}),(v1,[],{})>0{}>(v2,[],{})) ||| CREATE (v1:L0 {k0: 5}), (v2:L1 {k0: 6}), (v1)-[:T0]->(v2)
!reset
# 9. known finding no-eager-barrier:match-driven-delete (reproduced from an empty store): a cycle, then MATCH-driven DETACH DELETE
C((v1,[0],{k0:#I10})>0{}>(v2,[0],{k0:#I20}),(v2,[],{})>0{}>(v1,[],{})) ||| CREATE (v1:L0 {k0: 10})-[:T0]->(v2:L0 {k0: 20})-[:T0]->(v1)
MR(v1,[0],v2,0,v3,[]);D(1,v1) ||| MATCH (v1:L0)-[v2:T0]->(v3) DETACH DELETE v1
!reset
#    the same class from /verif/replays/C04-spec-seed2-1: rows (1->2),(8->1), row 1 deletes node 1 and both relationships
C((v1,[0,2],{k0:#I1})>0{k0:#I3}>(v2,[2],{k0:#I3}),(v3,[2],{k0:#I1})>0{}>(v1,[],{})) ||| CREATE (v1:L0:L2 {k0: 1})-[:T0 {k0: 3}]->(v2:L2 {k0: 3}), (v3:L2 {k0: 1})-[:T0]->(v1)
MR(v1,[2],v2,0,v3,[2]);D(1,v1) ||| MATCH (v1:L2)-[v2:T0]->(v3:L2) DETACH DELETE v1
!reset
# 10. handle renaming with id reuse and many look-alike new nodes (from /verif/replays/C04-spec-seed2-0: a harness false alarm, fixed)
C((_,[0],{k0:#I1})) ||| CREATE (:L0 {k0: 1})
C((_,[0],{k0:#I2})) ||| CREATE (:L0 {k0: 2})
C((_,[0],{k0:#I3})) ||| CREATE (:L0 {k0: 3})
C((_,[0],{k0:#I4})) ||| CREATE (:L0 {k0: 4})
C((v1,[2],{k0:#I1,k2:#I1})>1{k1:#I0}>(v2,[2],{k0:#I2})) ||| CREATE (v1:L2 {k0: 1, k2: 1})-[:T1 {k1: 0}]->(v2:L2 {k0: 2})
C((v1,[2],{k0:#I0,k2:#I0})>1{k1:#I0}>(v2,[2],{k0:#I2})) ||| CREATE (v1:L2 {k0: 0, k2: 0})-[:T1 {k1: 0}]->(v2:L2 {k0: 2})
C((v1,[2],{k0:#I1,k2:#I7})>1{k1:#I0}>(v2,[2],{k0:#I2})) ||| CREATE (v1:L2 {k0: 1, k2: 7})-[:T1 {k1: 0}]->(v2:L2 {k0: 2})
MN(v1,[0],{});D(1,v1) ||| MATCH (v1:L0) DETACH DELETE v1
MN(v1,[2],{});U([#I3,#I3,#I1],v0);C((v1,[],{})>1{k0:v1.k1}>(v2,[1],{k0:v1.k0})) ||| MATCH (v1:L2) UNWIND [3, 3, 1] AS v0 CREATE (v1)-[:T1 {k0: v1.k1}]->(v2:L1 {k0: v1.k0})
